#!/usr/bin/env python3
"""C17/C18: regenerates the *order and placement* facts of the Cognitive Nexus transaction layer
that the model `AndaVerif.Model.Tx` runs as its program.

The scan keys on WHAT IS CALLED (method / field / constant names), on nesting and on first-occurrence
order — never on the names of locals, on comments, formatting or a statement's exact spelling. Every
function is scanned with the private helpers of its file textually inlined (`common.inlined_body`),
so a block extracted into (or inlined from) a helper yields the same facts.

* rs/anda_cognitive_nexus/src/tx.rs      `Transaction::commit`: the dry-run branch (discards its
  shells and returns before anything else); the order of governance propagation, reference closure,
  key identity, the write loop over `mem::take(&mut self.staged)`, discard_unstaged_shells, journal,
  flush; whether a failing pre-commit check discards the shells before the error is returned; where
  `remove_versions` of a staged purge happens; the skip of unchanged rows, the version rule and the
  status rule; `write`: put before record_version, pending -> active; `abort` = discard_shells.
* rs/anda_cognitive_nexus/src/kml/mod.rs `execute`: begin -> plan -> (abort on a planning error)
  -> commit; `plan`: declare every handle before the passes.
* rs/anda_cognitive_nexus/src/kml/clauses.rs `plan_pass` table, `PLAN_PASSES`, which clause
  variants `declare_handles` mints a shell for; ENSURE: store lookup, staged lookup, mint.
* rs/anda_cognitive_nexus/src/nexus.rs   `Session::execute`: lock side taken per `Command` arm.
* rs/anda_cognitive_nexus/src/store/space.rs `begin_transaction`, `journal`.
* rs/anda_cognitive_nexus/src/store/history.rs `element_at`, `elements_at`, `record_version`, `seq_at_time`.
"""
import re, sys
from common import *

repo, gen = sys.argv[1], sys.argv[2]
T = "c17_nexus_order"
ID = r"[A-Za-z_][A-Za-z0-9_]*"


def one(text, pat, what):
    ms = list(re.finditer(pat, text))
    if len(ms) != 1:
        die(f"{T}: expected exactly one `{what}`, found {len(ms)}")
    return ms[0]


def block_at(text, start):
    """(text of the brace block that opens at or after `start`, index of its `{`, index after its `}`)"""
    i = text.index("{", start)
    depth, j = 0, i
    while j < len(text):
        if text[j] == "{":
            depth += 1
        elif text[j] == "}":
            depth -= 1
            if depth == 0:
                return text[i + 1:j], i, j + 1
        j += 1
    die(f"{T}: unbalanced braces")


def called(text, fn):
    """positions where `fn` (a function of the same file) is called: the `{` of an inlined
    `{ /*fn*/ … }` block, or a call left in place (`self.fn(` / `Self::fn(` / bare `fn(`)"""
    return [m.start() for m in re.finditer(r"\{ /\*" + fn + r"\*/|\bself\s*\.\s*" + fn + r"\s*\(|\bSelf\s*::\s*" + fn + r"\s*\(|(?<![\w.:])" + fn + r"\s*\(", text)]


def call_end(text, pos):
    """index just after the call that starts at `pos` (the inlined block, or the argument list)"""
    if text.startswith("{ /*", pos):
        return block_at(text, pos)[2]
    j = text.index("(", pos); depth = 0
    while j < len(text):
        if text[j] == "(": depth += 1
        elif text[j] == ")":
            depth -= 1
            if depth == 0: return j + 1
        j += 1
    die(f"{T}: unbalanced parentheses")


def with_methods(src, text, depth=2):
    """`text` followed by the (inlined) bodies of the methods of this file that `text` calls on some
    other receiver (`staged.next_version()`): a rule moved into such a method is still seen"""
    names = set(all_fn_names(src))
    out, seen, frontier = text, set(), text
    for _ in range(depth):
        nxt = ""
        for m in re.finditer(r"\.\s*(" + ID + r")\s*\(", frontier):
            n = m.group(1)
            if n in names and n not in seen:
                seen.add(n)
                nxt += "\n" + inlined_body(src, n)
        out += nxt
        frontier = nxt
    return out


VERSION_RULE = (r"if\s+(" + ID + r")\s*\.\s*is_new\s*\{\s*1\s*\}\s*else\s*\{\s*\1\s*\.\s*(?:row\s*\.\s*)?version\s*\(\s*\)\s*\.\s*saturating_add\s*\(\s*1\s*\)\s*\}"
                r"|if\s*!\s*(" + ID + r")\s*\.\s*is_new\s*\{\s*\2\s*\.\s*(?:row\s*\.\s*)?version\s*\(\s*\)\s*\.\s*saturating_add\s*\(\s*1\s*\)\s*\}\s*else\s*\{\s*1\s*\}")

# ---------------------------------------------------------------- tx.rs
tx = cut_tests(strip_rust_comments(read_source(repo, "rs/anda_cognitive_nexus/src/tx.rs")))
commit = inlined_body(tx, "commit")

# ---- the dry-run branch
m = re.search(r"if\s+self\s*\.\s*dry_run\s*\{", commit)
mi = re.search(r"if\s*!\s*self\s*\.\s*dry_run\s*\{", commit)
if m:
    dry_block, _, dry_end = block_at(commit, m.start())
    rest = commit[dry_end:]
elif mi:
    # inverted spelling: `if !self.dry_run { <commit> } else { <preview> }`
    m = mi
    live, _, live_end = block_at(commit, mi.start())
    if not re.match(r"\s*else\s*\{", commit[live_end:]):
        die(f"{T}: `if !self.dry_run {{ … }}` has no else branch")
    dry_block, _, dry_end = block_at(commit, live_end)
    rest = live + commit[dry_end:]
    if re.search(r"\.\s*await", commit[dry_end:]) and not re.search(r"\breturn\b", dry_block):
        die(f"{T}: the dry-run branch falls through into code that awaits")
    if not re.search(r"\breturn\b", dry_block):
        dry_block += " return"   # the branch is the tail of the function: nothing follows it
else:
    die(f"{T}: `if self.dry_run {{` not found in Transaction::commit")
dry_first = not re.search(r"\.\s*await", commit[:m.start()])
dry_discards = bool(called(dry_block, "discard_shells"))
dry_returns = bool(re.search(r"\breturn\b", dry_block))
dry_writes = bool(called(dry_block, "write") or re.search(r"\.\s*journal\s*\(|\.\s*put\s*\(|record_version\s*\(|remove_versions\s*\(", dry_block))

# ---- the write loop: whatever iterates `mem::take(&mut self.staged)`
tk = one(rest, r"mem\s*::\s*take\s*\(\s*&mut\s+self\s*\.\s*staged\s*\)", "mem::take(&mut self.staged)")
loop_body, loop_open, loop_end = block_at(rest, tk.end())
loop_start = tk.start()
w_in = called(loop_body, "write")
if len(w_in) != 1:
    die(f"{T}: expected exactly one call of self.write inside the commit loop, found {len(w_in)}")
if called(rest[:loop_start], "write") or called(rest[loop_end:], "write"):
    die(f"{T}: self.write is called outside the commit loop")
# unchanged rows are skipped: a test of `.changed` guards the write (before it in the loop, or a filter on the iterator)
skips_unchanged = bool(re.search(r"\.\s*changed\b", loop_body[:w_in[0]] + rest[tk.end():loop_open]))
version_rule = bool(re.search(VERSION_RULE, with_methods(tx, loop_body[:w_in[0]])))
# the write's error is propagated: `.await?` right after the call
write_propagates = bool(re.match(r"\s*\.\s*await\s*\?", loop_body[call_end(loop_body, w_in[0]):]))

cr = inlined_body(tx, "change_records")
cr_rule = bool(re.search(VERSION_RULE, with_methods(tx, cr)))
cr_filter = bool(re.search(r"\.\s*changed\b", cr))

# ---- the pre-commit checks, the later steps, the destruction of purged versions
CHECKS = [("governance", "propagate_governance"), ("refClosure", "check_reference_closure"), ("keyIdentity", "check_concept_key_identity")]
pos = []
for name, fn in CHECKS:
    ps = called(rest, fn)
    if len(ps) != 1:
        die(f"{T}: expected exactly one call of {fn} in commit, found {len(ps)}")
    pos.append((ps[0], name))
last_check = max(p for p, _ in pos)
LATER = [("discardUnstaged", None, "discard_unstaged_shells"), ("journal", r"\.\s*journal\s*\(", ".journal("), ("flush", r"self\s*\.\s*store\s*\.\s*flush\s*\(", "self.store.flush(")]
pos.append((loop_start, "writeLoop"))
for name, pat, what in LATER:
    ps = called(rest, what) if pat is None else [x.start() for x in re.finditer(pat, rest)]
    if len(ps) != 1:
        die(f"{T}: expected exactly one `{what}` in commit, found {len(ps)}")
    pos.append((ps[0], name))

# a failing check: is `discard_shells` called, before the error is returned, between the checks and the loop?
if last_check < loop_start:
    seg = rest[last_check:loop_start]
    d = called(seg, "discard_shells")
    r = [x.start() for x in re.finditer(r"\breturn\s+Err\s*\(", seg)]
    check_failure_discards = any(x < y for x in d for y in r)
else:
    check_failure_discards = False

RV = r"remove_versions\s*\("
rv_all = [x.start() for x in re.finditer(RV, rest)]
rv_in = [p for p in rv_all if loop_open < p < loop_end]
rv_out = [p for p in rv_all if not (loop_open < p < loop_end)]
if len(rv_in) > 1 or len(rv_out) > 1 or not rv_all or (rv_in and rv_out):
    die(f"{T}: remove_versions is called {len(rv_in)} time(s) inside and {len(rv_out)} time(s) outside the commit write loop")
purge_in_loop = bool(rv_in)
if rv_in:
    rel = rv_in[0] - loop_open - 1
    if not rel < w_in[0]:
        die(f"{T}: remove_versions does not precede self.write inside the commit loop")
    if not re.search(r"self\s*\.\s*purges\s*\.\s*get\s*\(\s*&\s*" + ID + r"\s*\)", loop_body[:w_in[0]]):
        die(f"{T}: the in-loop remove_versions is not guarded by self.purges.get(&id)")
if rv_out:
    pos.append((rv_out[0], "eraseVersions"))
order = [name for _, name in sorted(pos)]

status_rule = bool(re.search(
    r"if\s+(?:" + ID + r"\s*==\s*0|" + ID + r"\s*\.\s*is_empty\s*\(\s*\))\s*\{\s*ReceiptStatus\s*::\s*NoEffect\s*\}\s*else\s*\{\s*ReceiptStatus\s*::\s*Committed\s*\}"
    r"|if\s+(?:" + ID + r"\s*(?:!=|>)\s*0|!\s*" + ID + r"\s*\.\s*is_empty\s*\(\s*\))\s*\{\s*ReceiptStatus\s*::\s*Committed\s*\}\s*else\s*\{\s*ReceiptStatus\s*::\s*NoEffect\s*\}", rest))

# ---- write(): put then record_version; pending/empty -> active; version/seq stamped from arguments
wr = inlined_body(tx, "write")
p_put = one(wr, r"\.\s*put\s*\(", ".put(").start()
p_rec = one(wr, r"\.\s*record_version\s*\(", ".record_version(").start()
put_first = p_put < p_rec
promotes = bool(re.search(r"\.\s*state\s*\.\s*is_empty\s*\(\s*\)\s*\|\|\s*" + ID + r"\s*\.\s*state\s*==\s*state\s*::\s*PENDING\s*\{\s*" + ID + r"\s*\.\s*state\s*=\s*state\s*::\s*ACTIVE", wr))
stamps = bool(re.search(r"\.\s*version\s*=\s*version\s*;", wr)) and bool(re.search(r"\.\s*seq\s*=\s*self\s*\.\s*cx\s*\.\s*seq\s*;", wr))

abort_discards = bool(called(inlined_body(tx, "abort"), "discard_shells"))
shell_pending = bool(re.search(r"state\s*=\s*state\s*::\s*PENDING", inlined_body(tx, "insert_shell")))
mc = inlined_body(tx, "mark_changed")
mark_ok = bool(re.search(r"\.\s*changed\s*=\s*true", mc)) and bool(re.search(r"if\s*!\s*" + ID + r"\s*\.\s*is_new\s*\{\s*" + ID + r"\s*\.\s*op\s*=\s*op", mc))

# ---------------------------------------------------------------- kml/mod.rs
kml = cut_tests(strip_rust_comments(read_source(repo, "rs/anda_cognitive_nexus/src/kml/mod.rs")))
ex = fn_body(kml, "execute")
p_begin = one(ex, r"Transaction\s*::\s*begin\s*\(", "Transaction::begin(").start()
p_plan = one(ex, r"(?<![\w.])plan\s*\(", "plan(").start()
p_commit = one(ex, r"\.\s*commit\s*\(", ".commit(").start()
exec_order_ok = p_begin < p_plan < p_commit
# a planning error: `.abort().await` and then the return, in the arm that holds the `Err(…)` of `plan(…)`
# (whatever the spelling: `match`, `if let Err(e) = plan(…)`, arms in either order)
seg = ex[p_plan:]
pa = re.search(r"\.\s*abort\s*\(\s*\)\s*\.\s*await", seg)
pr = None
if pa:
    # the rest of the arm the abort stands in (up to the `}` that closes it): it leaves with the error
    j, depth = pa.end(), 0
    while j < len(seg) and depth >= 0:
        depth += {"{": 1, "}": -1}.get(seg[j], 0)
        j += 1
    pr = re.search(r"\breturn\b|\bErr\s*\(", seg[pa.end():j])
stmt_start = max(ex.rfind(";", 0, p_plan), 0)
abort_on_plan_error = bool(pa and pr and re.search(r"\bErr\s*\(", ex[stmt_start:p_plan] + seg[:pa.start()]))

pl = inlined_body(kml, "plan")
p_decl = one(pl, r"clauses\s*::\s*declare_handles\s*\(", "clauses::declare_handles(").start()
p_apply = one(pl, r"clauses\s*::\s*apply\s*\(", "clauses::apply(").start()
p_pass = one(pl, r"0\s*\.\.\s*clauses\s*::\s*PLAN_PASSES", "0..clauses::PLAN_PASSES").start()
declare_first = p_decl < p_pass < p_apply
pf = re.search(r"clauses\s*::\s*plan_pass\s*\(\s*" + ID + r"\s*\)\s*(!=|==)\s*" + ID, pl)
pass_filter = bool(pf) and p_pass < pf.start() < p_apply and (pf.group(1) == "==" or bool(re.search(r"\bcontinue\b", pl[pf.end():p_apply])))

# ---------------------------------------------------------------- kml/clauses.rs
cl = cut_tests(strip_rust_comments(read_source(repo, "rs/anda_cognitive_nexus/src/kml/clauses.rs")))
passes = int_const(cl, "PLAN_PASSES")
pp = fn_body(cl, "plan_pass")
table = {}
for arm in re.finditer(r"((?:MutationClause\s*::\s*\w+\s*\(\s*_\s*\)\s*\|?\s*)+|_)\s*=>\s*(\d+)", pp):
    names = re.findall(r"MutationClause\s*::\s*(\w+)", arm.group(1)) or ["_"]
    for nme in names:
        if nme in table:
            die(f"{T}: plan_pass lists {nme} twice")
        table[nme] = int(arm.group(2))
for k in ("CreateConcept", "UpsertConcept", "EnsureProposition", "_"):
    if k not in table:
        die(f"{T}: plan_pass has no arm for {k}")
dh = inlined_body(cl, "declare_handles")
declared = sorted(set(re.findall(r"MutationClause\s*::\s*(\w+)\s*\(\s*" + ID + r"\s*\)\s*=>\s*\(\s*Some", dh)))

# every clause kind `clauses::apply` dispatches on (the model must know each of them by name)
ap = fn_body(cl, "apply")
clause_kinds = sorted(set(re.findall(r"MutationClause\s*::\s*(\w+)\s*\(", ap)))
if len(clause_kinds) < 5:
    die(f"{T}: clauses::apply dispatches on only {len(clause_kinds)} MutationClause variants")
if re.search(r"\n\s*_\s*=>", ap):
    die(f"{T}: clauses::apply has a catch-all arm: the list of clause kinds is no longer explicit")

en = fn_body(cl, "ensure_proposition")
p_find = one(en, r"\.\s*find_proposition\s*\(", ".find_proposition(").start()
p_mint = one(en, r"\.\s*mint\s*\(", ".mint(").start()
stg = [x.start() for x in re.finditer(r"\.\s*staged_new_proposition\s*\(", en)]
if len(stg) > 1:
    die(f"{T}: ensure_proposition consults staged_new_proposition {len(stg)} times")
if not p_find < p_mint:
    die(f"{T}: ensure_proposition mints before it looks the tuple up")
ensure_consults_staged = False
if stg:
    if not (p_find < stg[0] < p_mint):
        die(f"{T}: ensure_proposition must look in the store, then at the staged rows, then mint")
    between = en[stg[0]:p_mint]
    snp = inlined_body(tx, "staged_new_proposition")
    rule = bool(re.search(r"Element\s*::\s*Proposition\s*\(\s*(" + ID + r")\s*\)\s*if\s+" + ID + r"\s*\.\s*is_new\s*&&\s*\1\s*\.\s*tuple_key\s*==\s*" + ID, snp)) \
        or bool(re.search(r"\.\s*is_new\b", snp) and re.search(r"\.\s*tuple_key\s*==", snp) and re.search(r"Element\s*::\s*Proposition", snp))
    ensure_consults_staged = bool(re.search(r"\breturn\s+Ok\s*\(\s*\(\s*\)\s*\)", between)) and not re.search(r"stage_new\s*\(", between) and rule

# ENSURE works on the CANONICAL tuple: both endpoints go through `canonicalize` (merged_into chain) first, the
# key is computed from the canonicalised endpoints, and that one key is what the store lookup, the look at
# the rows staged for creation and the staged row itself use (data flow by identifier, whatever its name)
canon = [(m.start(), m.group(1)) for m in re.finditer(r"let\s+(?:mut\s+)?(" + ID + r")\s*=\s*canonicalize\s*\(", en)]
kcall = re.search(r"let\s+(?:mut\s+)?(" + ID + r")\s*=\s*tuple_key\s*\(", en)
ensure_key_canonical = False
if len(canon) >= 2 and kcall:
    kname = kcall.group(1)
    kargs = en[kcall.end():en.index(";", kcall.end())]
    canon_names = [n for _, n in canon]
    args_ok = all(re.search(r"(?<![\w.])" + re.escape(n) + r"(?![\w])", kargs) for n in set(canon_names))
    order_ok = max(p0 for p0, _ in canon) < kcall.start() < p_find
    def uses(call):
        m2 = re.search(call + r"\s*\(\s*&?\s*(" + ID + r")", en)
        return bool(m2) and m2.group(1) == kname
    row_ok = bool(re.search(r"\btuple_key\s*:\s*" + re.escape(kname) + r"\b|\btuple_key\s*,", en)) if kname != "tuple_key" else bool(re.search(r"\btuple_key\s*[,:}]", en))
    # no other key is computed in the function
    one_key = len(re.findall(r"(?<![\w.])tuple_key\s*\(", en)) == 1
    ensure_key_canonical = args_ok and order_ok and uses(r"\.\s*find_proposition") and (not stg or uses(r"\.\s*staged_new_proposition")) and row_ok and one_key

# ---------------------------------------------------------------- nexus.rs
nx = cut_tests(strip_rust_comments(read_source(repo, "rs/anda_cognitive_nexus/src/nexus.rs")))
sx = inlined_body(nx, "execute")   # the first `fn execute`: `impl Executor for Session`
arms = [(m.start(), m.group(1)) for m in re.finditer(r"Command\s*::\s*(Kml|Kql|Meta)\s*\(", sx)]
if sorted(a for _, a in arms) != ["Kml", "Kql", "Meta"]:
    die(f"{T}: expected exactly the arms Command::Kml/Kql/Meta in Session::execute, found {[a for _, a in arms]}")
arms.sort()
locks = {}
for n, (p, name) in enumerate(arms):
    end = arms[n + 1][0] if n + 1 < len(arms) else len(sx)
    seg = sx[p:end]
    lk = list(re.finditer(r"\.\s*lock\s*\.\s*(read|write)\s*\(\s*\)\s*\.\s*await", seg))
    if len(lk) != 1:
        die(f"{T}: arm Command::{name} takes the nexus lock {len(lk)} times (expected once)")
    # the guard is bound to a named variable (`let _guard = …`), not dropped at once (`let _ = …`)
    held = bool(re.search(r"let\s+_\w+\s*=\s*[\w\s.]*\.\s*lock\s*\.\s*(?:read|write)", seg))
    first_exec = re.search(r"crate\s*::\s*(kml|kql|meta)\s*::\s*execute\s*\(", seg)
    before = bool(first_exec and lk[0].start() < first_exec.start())
    locks[name] = (lk[0].group(1), held and before)

# ---------------------------------------------------------------- store/space.rs
sp = cut_tests(strip_rust_comments(read_source(repo, "rs/anda_cognitive_nexus/src/store/space.rs")))
bt = inlined_body(sp, "begin_transaction")
seq_next = bool(re.search(r"\.\s*seq\s*\.\s*saturating_add\s*\(\s*1\s*\)", bt))
p_upd = re.search(r"\.\s*update\s*\(", bt)
p_ok = re.search(r"WriteContext\s*\{", bt)
seq_durable_first = bool(p_upd and p_ok and p_upd.start() < p_ok.start())
jr = inlined_body(sp, "journal")
journal_seq = bool(re.search(r"\bseq\s*:\s*" + ID + r"\s*\.\s*seq\s*,", jr)) and bool(re.search(r"\btx_id\s*:\s*" + ID + r"\s*\.\s*tx_id", jr))

# ---------------------------------------------------------------- store/history.rs
hs = cut_tests(strip_rust_comments(read_source(repo, "rs/anda_cognitive_nexus/src/store/history.rs")))
LE = r"RangeQuery\s*::\s*Le\s*\(\s*Fv\s*::\s*U64\s*\(\s*" + ID + r"\s*\)\s*\)"
CMP = r"\(\s*(" + ID + r")\s*\.\s*seq\s*,\s*\1\s*\.\s*version\s*\)\s*(?:>=|>|<=|<)\s*\(\s*(" + ID + r")\s*\.\s*seq\s*,\s*\2\s*\.\s*version\s*\)"
ea = inlined_body(hs, "element_at")
es = inlined_body(hs, "elements_at")
ea_le, es_le = bool(re.search(LE, ea)), bool(re.search(LE, es))
ea_max, es_max = bool(re.search(CMP, ea)), bool(re.search(CMP, es))
rv = inlined_body(hs, "record_version")
rv_seq = bool(re.search(r"\bseq\s*:\s*" + ID + r"\s*\.\s*seq\s*,", rv)) and bool(re.search(r"\.\s*add_from\s*\(", rv))
st = inlined_body(hs, "seq_at_time")
st_rule = bool(re.search(r"\.\s*committed_at\s*(?:\.\s*as_str\s*\(\s*\))?\s*<=\s*" + ID + r"\s*&&\s*" + ID + r"\s*\.\s*seq\s*>\s*" + ID, st))


def b(x):
    return "true" if x else "false"


def lk(name):
    kind, ok = locks[name]
    return (".exclusive" if kind == "write" else ".shared"), ok


text = f"""/- GENERATED by bin/translate/c17_nexus_order.py from rs/anda_cognitive_nexus/src/{{tx.rs, kml/mod.rs,
kml/clauses.rs, nexus.rs, store/space.rs, store/history.rs}} — do not edit. -/
namespace AndaVerif.Gen.NexusOrder

/-- the steps of the non-dry half of `Transaction::commit` -/
inductive CommitStep where
  | governance | refClosure | keyIdentity | writeLoop | discardUnstaged | journal | flush
  /-- `remove_versions` of the staged purges as a step of its own (only when it is *not* inside the write loop) -/
  | eraseVersions
  deriving DecidableEq, Repr

/-- their order in the source (first occurrence of each call in the body of `commit`) -/
def commitOrder : List CommitStep := [{", ".join("." + n for n in order)}]

/-- the `if self.dry_run` branch comes first, discards its shells, returns, and writes nothing -/
def dryRunFirst : Bool := {b(dry_first)}
def dryRunDiscardsShells : Bool := {b(dry_discards)}
def dryRunReturns : Bool := {b(dry_returns)}
def dryRunWrites : Bool := {b(dry_writes)}

/-- `remove_versions` for a staged purge runs inside the write loop, right before that row's write -/
def purgeErasureInLoop : Bool := {b(purge_in_loop)}
/-- inside the write loop -/
def loopSkipsUnchanged : Bool := {b(skips_unchanged)}
/-- `version = if staged.is_new {{ 1 }} else {{ staged.row.version().saturating_add(1) }}` (loop and change_records) -/
def versionRuleOncePerElement : Bool := {b(version_rule and cr_rule and cr_filter)}
def loopWritePropagatesError : Bool := {b(write_propagates)}
/-- `status = if written == 0 {{ NoEffect }} else {{ Committed }}` -/
def statusRule : Bool := {b(status_rule)}
/-- `Transaction::write`: `store.put` before `record_version`; `pending`/empty becomes `active`;
`row.version = version`, `row.seq = cx.seq` -/
def writePutsBeforeVersionLog : Bool := {b(put_first)}
def writePromotesPending : Bool := {b(promotes)}
def writeStampsVersionAndSeq : Bool := {b(stamps)}
/-- `Transaction::abort` = `discard_shells`; a shell is inserted in state `pending` -/
def abortDiscardsShells : Bool := {b(abort_discards)}
def shellIsPending : Bool := {b(shell_pending)}
def markChangedRule : Bool := {b(mark_ok)}

/-- `kml::execute`: begin → plan → commit; `tx.abort()` precedes the return of a planning error;
-/
def executeOrder : Bool := {b(exec_order_ok)}
def abortOnPlanError : Bool := {b(abort_on_plan_error)}
/-- a failing pre-commit check discards the statement's shells before the error is returned -/
def checkFailureDiscardsShells : Bool := {b(check_failure_discards)}
/-- `ensure_proposition`: store lookup, then the rows staged for creation (`is_new` Propositions with
the same `tuple_key`: bind and return), then mint -/
def ensureConsultsStaged : Bool := {b(ensure_consults_staged)}
/-- `ensure_proposition`: both endpoints are canonicalised (`merged_into` chain) before the one tuple
key is computed that the store lookup, the look at the staged rows and the staged row all use -/
def ensureKeyIsCanonical : Bool := {b(ensure_key_canonical)}
/-- `kml::plan`: every handle is declared before the first pass; a pass skips other passes' clauses -/
def declareBeforeApply : Bool := {b(declare_first)}
def passFilter : Bool := {b(pass_filter)}

/-- `clauses::PLAN_PASSES` and the `plan_pass` table -/
def planPasses : Nat := {passes}
def passCreateConcept : Nat := {table["CreateConcept"]}
def passUpsertConcept : Nat := {table["UpsertConcept"]}
def passEnsureProposition : Nat := {table["EnsureProposition"]}
def passOther : Nat := {table["_"]}
def passExplicit : List String := [{", ".join('"' + k + '"' for k in sorted(table) if k != "_")}]
/-- every `MutationClause` variant `clauses::apply` dispatches on -/
def clauseKinds : List String := [{", ".join('"' + k + '"' for k in clause_kinds)}]
/-- the clause variants `declare_handles` mints a shell for in phase 1 -/
def declaredInPhase1 : List String := [{", ".join('"' + k + '"' for k in declared)}]

inductive LockKind where
  | shared | exclusive
  deriving DecidableEq, Repr

/-- `Session::execute`: the Nexus `RwLock` side each `Command` arm takes (held in a named guard,
acquired before the family's `execute`) -/
def lockKml : LockKind := {lk("Kml")[0]}
def lockKql : LockKind := {lk("Kql")[0]}
def lockMeta : LockKind := {lk("Meta")[0]}
def lockHeldAcrossKml : Bool := {b(lk("Kml")[1])}
def lockHeldAcrossKql : Bool := {b(lk("Kql")[1])}
def lockHeldAcrossMeta : Bool := {b(lk("Meta")[1])}

/-- `begin_transaction`: `seq = space.seq + 1`, written to the Space row before the context exists;
the journal row and every version row carry `cx.seq` -/
def seqIsNext : Bool := {b(seq_next)}
def seqDurableBeforeUse : Bool := {b(seq_durable_first)}
def journalCarriesCxSeq : Bool := {b(journal_seq)}
def versionRowCarriesCxSeq : Bool := {b(rv_seq)}

/-- `element_at` / `elements_at`: rows with `seq ≤ coordinate`, greatest `(seq, version)` wins;
`seq_at_time`: greatest seq among rows with `committed_at ≤ t` -/
def historyReadsAtOrBefore : Bool := {b(ea_le and es_le)}
def historyTakesGreatest : Bool := {b(ea_max and es_max)}
def seqAtTimeRule : Bool := {b(st_rule)}

end AndaVerif.Gen.NexusOrder
"""
write_gen(gen, "NexusOrder.lean", text)

FACTS = """theorem gen_commit_order :
    commitOrder = [.governance, .refClosure, .keyIdentity, .writeLoop, .discardUnstaged, .journal, .flush] := by decide
theorem gen_purge_in_loop : purgeErasureInLoop = true := by decide
theorem gen_dry_run : (dryRunFirst && dryRunDiscardsShells && dryRunReturns && !dryRunWrites) = true := by decide
theorem gen_write_loop :
    (loopSkipsUnchanged && versionRuleOncePerElement && loopWritePropagatesError && statusRule &&
     writePutsBeforeVersionLog && writePromotesPending && writeStampsVersionAndSeq && markChangedRule) = true := by decide
theorem gen_abort : (executeOrder && abortOnPlanError && abortDiscardsShells && shellIsPending) = true := by decide
theorem gen_check_failure_discards : checkFailureDiscardsShells = true := by decide
theorem gen_ensure_consults_staged : ensureConsultsStaged = true := by decide
theorem gen_ensure_key_canonical : ensureKeyIsCanonical = true := by decide
theorem gen_plan :
    (declareBeforeApply && passFilter) = true ∧ planPasses = 3 ∧ passCreateConcept = 0 ∧ passUpsertConcept = 1 ∧
    passEnsureProposition = 1 ∧ passOther = 2 ∧
    passExplicit = ["CreateConcept", "EnsureProposition", "UpsertConcept"] ∧
    declaredInPhase1 = ["CreateActivity", "CreateAssertion", "CreateConcept", "CreateEvidence"] := by decide
theorem gen_clause_kinds :
    clauseKinds = ["Archive", "CorrectEvidence", "CreateActivity", "CreateAssertion", "CreateConcept", "CreateEvidence",
      "EnsureProposition", "MergeConcept", "Purge", "RetractAssertion", "SetRetention", "SupersedeAssertion", "Tombstone",
      "TransitionActivity", "Update", "UpsertConcept"] := by decide
theorem gen_locks :
    lockKml = .exclusive ∧ lockKql = .shared ∧ lockMeta = .shared ∧
    (lockHeldAcrossKml && lockHeldAcrossKql && lockHeldAcrossMeta) = true := by decide
theorem gen_seq : (seqIsNext && seqDurableBeforeUse && journalCarriesCxSeq && versionRowCarriesCxSeq) = true := by decide
theorem gen_history : (historyReadsAtOrBefore && historyTakesGreatest && seqAtTimeRule) = true := by decide
"""

# the kernel-checked facts live in their own module: when an edit breaks one of them the data module
# (and with it the model and its driver) still builds, so the model runs the *edited* program and
# the harness can look for the input on which the property now fails
facts = """/- GENERATED by bin/translate/c17_nexus_order.py — facts about Gen/NexusOrder.lean that the proofs of
C17 / C18 start from — do not edit. -/
import AndaVerif.Gen.NexusOrder
namespace AndaVerif.Gen.NexusOrder

FACTS
end AndaVerif.Gen.NexusOrder
"""
write_gen(gen, "NexusOrderFacts.lean", facts.replace("FACTS", FACTS))
