#!/usr/bin/env python3
"""C17/C18: regenerates the *order and placement* facts of the Cognitive Nexus transaction layer
that the model `AndaVerif.Model.Tx` runs as its program:

* rs/anda_cognitive_nexus/src/tx.rs      `Transaction::commit`: the dry-run branch (discards its
  shells and returns before anything else), then the order of governance propagation, reference
  closure, key identity, the write loop, discard_unstaged_shells, journal, flush; the version rule
  and the skip of unchanged rows inside the loop; `write`: put before record_version, pending ->
  active; `abort` = discard_shells.
* rs/anda_cognitive_nexus/src/kml/mod.rs `execute`: begin -> plan -> (abort on a planning error)
  -> commit; no clean-up on a commit error; `plan`: declare every handle before the passes.
* rs/anda_cognitive_nexus/src/kml/clauses.rs `plan_pass` table, `PLAN_PASSES`, which clause
  variants `declare_handles` mints a shell for.
* rs/anda_cognitive_nexus/src/nexus.rs   `Session::execute`: lock kind taken per `Command` arm.
* rs/anda_cognitive_nexus/src/store/space.rs `begin_transaction`: `seq = space.seq + 1`, written
  back before the context is returned; `journal` stores `cx.seq`.
"""
import re, sys
from common import *

repo, gen = sys.argv[1], sys.argv[2]
T = "c17_nexus_order"


def need_one(body, pat, what):
    ms = list(re.finditer(pat, body))
    if len(ms) != 1:
        die(f"{T}: expected exactly one `{what}`, found {len(ms)}")
    return ms[0].start()


# ---------------------------------------------------------------- tx.rs
tx = strip_rust_comments(read_source(repo, "rs/anda_cognitive_nexus/src/tx.rs"))
commit = fn_body(tx, "commit")

# dry-run branch: `if self.dry_run { ... }` at the top
m = re.search(r"if\s+self\s*\.\s*dry_run\s*\{", commit)
if not m:
    die(f"{T}: `if self.dry_run {{` not found in Transaction::commit")
i = commit.index("{", m.start())
depth, j = 0, i
while j < len(commit):
    if commit[j] == "{":
        depth += 1
    elif commit[j] == "}":
        depth -= 1
        if depth == 0:
            break
    j += 1
dry_block, rest, dry_start = commit[i + 1:j], commit[j + 1:], m.start()
dry_discards = bool(re.search(r"self\s*\.\s*discard_shells\s*\(\s*\)\s*\.\s*await", dry_block))
dry_returns = bool(re.search(r"\breturn\s+Ok\s*\(", dry_block))
dry_writes = bool(re.search(r"self\s*\.\s*write\s*\(|\.\s*journal\s*\(|\.\s*put\s*\(|record_version", dry_block))
dry_first = not re.search(r"\.\s*await", commit[:dry_start])  # nothing awaited before the branch

def block_after(text, start):
    """text of the brace block that opens at or after `start`"""
    i = text.index("{", start)
    depth, j = 0, i
    while j < len(text):
        if text[j] == "{":
            depth += 1
        elif text[j] == "}":
            depth -= 1
            if depth == 0:
                return text[i + 1:j]
        j += 1
    die(f"{T}: unbalanced braces")


CHECKS = [
    ("governance", r"self\s*\.\s*propagate_governance\s*\(\s*\)\s*\.\s*await", "self.propagate_governance().await"),
    ("refClosure", r"self\s*\.\s*check_reference_closure\s*\(\s*\)\s*\.\s*await", "self.check_reference_closure().await"),
    ("keyIdentity", r"self\s*\.\s*check_concept_key_identity\s*\(\s*\)\s*\.\s*await", "self.check_concept_key_identity().await"),
]
LATER = [
    ("writeLoop", r"for\s*\(\s*id\s*,\s*staged\s*\)\s*in\s+std\s*::\s*mem\s*::\s*take\s*\(\s*&mut\s+self\s*\.\s*staged\s*\)", "for (id, staged) in std::mem::take(&mut self.staged)"),
    ("discardUnstaged", r"self\s*\.\s*discard_unstaged_shells\s*\(", "self.discard_unstaged_shells("),
    ("journal", r"\.\s*journal\s*\(", ".journal("),
    ("flush", r"self\s*\.\s*store\s*\.\s*flush\s*\(", "self.store.flush("),
]
markers = CHECKS + LATER
# Two shapes are understood: the three checks inline in `commit` (each `?`-propagated: a failing
# check returns at once, nothing is cleaned up), or gathered in `check_before_commit()` whose
# failure arm may discard the shells before returning the error.
call = list(re.finditer(r"self\s*\.\s*check_before_commit\s*\(\s*\)\s*\.\s*await", rest))
if len(call) > 1:
    die(f"{T}: check_before_commit is called {len(call)} times in commit")
if call:
    cb = fn_body(tx, "check_before_commit")
    cpos = sorted((need_one(cb, pat, what), name) for name, pat, what in CHECKS)
    for name, pat, what in CHECKS:
        if re.search(pat, rest):
            die(f"{T}: `{what}` appears both in commit and in check_before_commit")
    m = re.search(r"if\s+let\s+Err\s*\(\s*\w+\s*\)\s*=\s*self\s*\.\s*check_before_commit\s*\(\s*\)\s*\.\s*await\s*\{", rest)
    check_failure_discards = False
    if m:
        arm = block_after(rest, m.start())
        pd = re.search(r"self\s*\.\s*discard_shells\s*\(\s*\)\s*\.\s*await", arm)
        pr = re.search(r"\breturn\s+Err\s*\(", arm)
        if not pr:
            die(f"{T}: the failure arm of check_before_commit does not return the error")
        check_failure_discards = bool(pd and pd.start() < pr.start())
    elif not re.search(r"self\s*\.\s*check_before_commit\s*\(\s*\)\s*\.\s*await\s*\?", rest):
        die(f"{T}: the result of check_before_commit is neither matched nor propagated")
    pos = [(call[0].start() + k, name) for k, (_, name) in enumerate(cpos)]
else:
    check_failure_discards = False
    pos = [(need_one(rest, pat, what), name) for name, pat, what in CHECKS]
pos += [(need_one(rest, pat, what), name) for name, pat, what in LATER]

# where the version rows of staged purges are destroyed: inside the write loop (right before the
# row's own write), or as a step of its own somewhere else in `commit`
RV = r"\.\s*remove_versions\s*\("
lm0 = re.search(LATER[0][1], rest)
loop0 = block_after(rest, lm0.end())
loop_start = rest.index("{", lm0.end())
loop_end = loop_start + len(loop0) + 1
rv_all = [m.start() for m in re.finditer(RV, rest)]
rv_in = [p for p in rv_all if loop_start < p < loop_end]
rv_out = [p for p in rv_all if not (loop_start < p < loop_end)]
if len(rv_in) > 1 or len(rv_out) > 1 or not rv_all:
    die(f"{T}: remove_versions is called {len(rv_in)} time(s) inside and {len(rv_out)} time(s) outside the commit write loop")
purge_in_loop = bool(rv_in)
if rv_in:
    # it must come before the row's own write, guarded by the staged purge of that id
    wpos = re.search(r"self\s*\.\s*write\s*\(", loop0)
    rpos = re.search(RV, loop0)
    if not (wpos and rpos and rpos.start() < wpos.start()):
        die(f"{T}: remove_versions does not precede self.write( inside the commit loop")
    if not re.search(r"self\s*\.\s*purges\s*\.\s*get\s*\(\s*&id\s*\)", loop0):
        die(f"{T}: the in-loop remove_versions is not guarded by self.purges.get(&id)")
if rv_out:
    # a purge destroyed in the loop *and* elsewhere would be two erasures; one outside becomes a step
    if rv_in:
        die(f"{T}: remove_versions both inside and outside the commit write loop")
    p0 = rv_out[0]
    pos.append((p0, "eraseVersions"))
order = [name for _, name in sorted(pos)]

# the write loop body
lm = re.search(LATER[0][1], rest)
li = rest.index("{", lm.end())
depth, j = 0, li
while j < len(rest):
    if rest[j] == "{":
        depth += 1
    elif rest[j] == "}":
        depth -= 1
        if depth == 0:
            break
    j += 1
loop = rest[li + 1:j]
skips_unchanged = bool(re.search(r"if\s*!\s*staged\s*\.\s*changed\s*\{\s*continue\s*;\s*\}", loop))
version_rule = bool(re.search(
    r"let\s+version\s*=\s*if\s+staged\s*\.\s*is_new\s*\{\s*1\s*\}\s*else\s*\{\s*staged\s*\.\s*row\s*\.\s*version\s*\(\s*\)\s*\.\s*saturating_add\s*\(\s*1\s*\)\s*\}", loop))
writes_in_loop = len(re.findall(r"self\s*\.\s*write\s*\(", loop))
write_propagates = bool(re.search(r"self\s*\.\s*write\s*\([^;]*\)\s*\.\s*await\s*\?", loop, re.S))
if writes_in_loop != 1:
    die(f"{T}: expected exactly one self.write( in the commit loop, found {writes_in_loop}")
# same rule in change_records (what a dry run reports)
cr = fn_body(tx, "change_records")
cr_rule = bool(re.search(r"if\s+staged\s*\.\s*is_new\s*\{\s*1\s*\}\s*else\s*\{\s*staged\s*\.\s*row\s*\.\s*version\s*\(\s*\)\s*\.\s*saturating_add\s*\(\s*1\s*\)\s*\}", cr))
cr_filter = bool(re.search(r"filter\s*\(\s*\|\s*\(\s*_\s*,\s*staged\s*\)\s*\|\s*staged\s*\.\s*changed\s*\)", cr))

# status rule
status_rule = bool(re.search(r"if\s+written\s*==\s*0\s*\{\s*ReceiptStatus\s*::\s*NoEffect\s*\}\s*else\s*\{\s*ReceiptStatus\s*::\s*Committed\s*\}", rest))

# write(): put then record_version; pending/empty -> active; version/seq stamped from arguments
wr = fn_body(tx, "write")
p_put = need_one(wr, r"self\s*\.\s*store\s*\.\s*put\s*\(", "self.store.put(")
p_rec = need_one(wr, r"\.\s*record_version\s*\(", ".record_version(")
put_first = p_put < p_rec
promotes = bool(re.search(r"if\s+row\s*\.\s*state\s*\.\s*is_empty\s*\(\s*\)\s*\|\|\s*row\s*\.\s*state\s*==\s*state\s*::\s*PENDING\s*\{\s*row\s*\.\s*state\s*=\s*state\s*::\s*ACTIVE", wr))
stamps = bool(re.search(r"row\s*\.\s*version\s*=\s*version\s*;", wr)) and bool(re.search(r"row\s*\.\s*seq\s*=\s*self\s*\.\s*cx\s*\.\s*seq\s*;", wr))

abort_body = fn_body(tx, "abort")
abort_discards = bool(re.search(r"self\s*\.\s*discard_shells\s*\(\s*\)\s*\.\s*await", abort_body))

ins = fn_body(tx, "insert_shell")
shell_pending = bool(re.search(r"state\s*=\s*state\s*::\s*PENDING", ins))

# mark_changed: sets changed, keeps op of a new row
mc = fn_body(tx, "mark_changed")
mark_ok = bool(re.search(r"staged\s*\.\s*changed\s*=\s*true", mc)) and bool(re.search(r"if\s*!\s*staged\s*\.\s*is_new\s*\{\s*staged\s*\.\s*op\s*=\s*op", mc))

# ---------------------------------------------------------------- kml/mod.rs
kml = strip_rust_comments(read_source(repo, "rs/anda_cognitive_nexus/src/kml/mod.rs"))
ex = fn_body(kml, "execute")
p_begin = need_one(ex, r"Transaction\s*::\s*begin\s*\(", "Transaction::begin(")
p_plan = need_one(ex, r"\bplan\s*\(", "plan(")
p_commit = need_one(ex, r"tx\s*\.\s*commit\s*\(", "tx.commit(")
exec_order_ok = p_begin < p_plan < p_commit
seg = ex[p_plan:p_commit]
m = re.search(r"Err\s*\(\s*\w+\s*\)\s*=>\s*\{", seg)
abort_on_plan_error = False
if m:
    k = seg.index("{", m.start())
    depth, j = 0, k
    while j < len(seg):
        if seg[j] == "{":
            depth += 1
        elif seg[j] == "}":
            depth -= 1
            if depth == 0:
                break
        j += 1
    arm = seg[k + 1:j]
    pa = re.search(r"tx\s*\.\s*abort\s*\(\s*\)\s*\.\s*await", arm)
    pr = re.search(r"\breturn\b", arm)
    abort_on_plan_error = bool(pa and pr and pa.start() < pr.start())

pl = fn_body(kml, "plan")
p_decl = need_one(pl, r"clauses\s*::\s*declare_handles\s*\(", "clauses::declare_handles(")
p_apply = need_one(pl, r"clauses\s*::\s*apply\s*\(", "clauses::apply(")
p_pass = need_one(pl, r"for\s+pass\s+in\s+0\s*\.\.\s*clauses\s*::\s*PLAN_PASSES", "for pass in 0..clauses::PLAN_PASSES")
declare_first = p_decl < p_pass < p_apply
pass_filter = bool(re.search(r"if\s+clauses\s*::\s*plan_pass\s*\(\s*clause\s*\)\s*!=\s*pass\s*\{\s*continue\s*;", pl))

# ---------------------------------------------------------------- kml/clauses.rs
cl = strip_rust_comments(read_source(repo, "rs/anda_cognitive_nexus/src/kml/clauses.rs"))
passes = int_const(cl, "PLAN_PASSES")
pp = fn_body(cl, "plan_pass")
table = {}
for arm in re.finditer(r"((?:MutationClause\s*::\s*\w+\s*\(\s*_\s*\)\s*\|?\s*)+|_)\s*=>\s*(\d+)", pp):
    names = re.findall(r"MutationClause\s*::\s*(\w+)", arm.group(1)) or ["_"]
    for nme in names:
        if nme in table:
            die(f"{T}: plan_pass lists {nme} twice")
        table[nme] = int(arm.group(2))
for k in ("CreateConcept", "UpsertConcept", "EnsureProposition", "_"):
    if k not in table:
        die(f"{T}: plan_pass has no arm for {k}")
dh = fn_body(cl, "declare_handles")
declared = sorted(set(re.findall(r"MutationClause\s*::\s*(\w+)\s*\(\s*c\s*\)\s*=>\s*\(\s*Some", dh)))

# ENSURE PROPOSITION resolves through the store, then through the rows this transaction staged for
# creation, and only then mints
en = fn_body(cl, "ensure_proposition")
p_find = need_one(en, r"store\s*\.\s*find_proposition\s*\(", "store.find_proposition(")
p_mint = need_one(en, r"tx\s*\.\s*mint\s*\(", "tx.mint(")
stg = list(re.finditer(r"tx\s*\.\s*staged_new_proposition\s*\(", en))
if len(stg) > 1:
    die(f"{T}: ensure_proposition consults staged_new_proposition {len(stg)} times")
ensure_consults_staged = False
if stg:
    if not (p_find < stg[0].start() < p_mint):
        die(f"{T}: ensure_proposition must look in the store, then at the staged rows, then mint")
    arm = block_after(en, stg[0].start())
    snp = fn_body(tx, "staged_new_proposition")
    rule = bool(re.search(r"Element\s*::\s*Proposition\s*\(\s*row\s*\)\s*if\s+staged\s*\.\s*is_new\s*&&\s*row\s*\.\s*tuple_key\s*==\s*tuple_key", snp))
    ensure_consults_staged = bool(re.search(r"\breturn\s+Ok\s*\(\s*\(\s*\)\s*\)", arm)) and not re.search(r"stage_new|tx\s*\.\s*mint", arm) and rule
if not (p_find < p_mint):
    die(f"{T}: ensure_proposition mints before it looks the tuple up")

# ---------------------------------------------------------------- nexus.rs
nx = strip_rust_comments(read_source(repo, "rs/anda_cognitive_nexus/src/nexus.rs"))
# the Session impl of Executor::execute is the first `fn execute`
sx = fn_body(nx, "execute", 0)
locks = {}
arms = [(m.start(), m.group(1)) for m in re.finditer(r"Command\s*::\s*(Kml|Kql|Meta)\s*\(", sx)]
if sorted(a for _, a in arms) != ["Kml", "Kql", "Meta"]:
    die(f"{T}: expected exactly the arms Command::Kml/Kql/Meta in Session::execute, found {[a for _, a in arms]}")
arms.sort()
for n, (p, name) in enumerate(arms):
    end = arms[n + 1][0] if n + 1 < len(arms) else len(sx)
    seg = sx[p:end]
    lk = re.findall(r"self\s*\.\s*nexus\s*\.\s*lock\s*\.\s*(read|write)\s*\(\s*\)\s*\.\s*await", seg)
    if len(lk) != 1:
        die(f"{T}: arm Command::{name} takes the nexus lock {len(lk)} times (expected once)")
    # the guard must be bound to a named variable (`let _guard = …`), not dropped at once (`let _ = …`)
    held = bool(re.search(r"let\s+_\w+\s*=\s*self\s*\.\s*nexus\s*\.\s*lock\s*\.", seg))
    first_exec = re.search(r"crate\s*::\s*(kml|kql|meta)\s*::\s*execute\s*\(", seg)
    lock_pos = re.search(r"self\s*\.\s*nexus\s*\.\s*lock\s*\.", seg).start()
    before = bool(first_exec and lock_pos < first_exec.start())
    locks[name] = (lk[0], held and before)

# ---------------------------------------------------------------- store/space.rs
sp = strip_rust_comments(read_source(repo, "rs/anda_cognitive_nexus/src/store/space.rs"))
bt = fn_body(sp, "begin_transaction")
seq_next = bool(re.search(r"let\s+seq\s*=\s*space\s*\.\s*seq\s*\.\s*saturating_add\s*\(\s*1\s*\)\s*;", bt))
p_upd = re.search(r"\.\s*update\s*\(\s*space\s*\.\s*_id\s*,\s*fields\s*\)", bt)
p_ok = re.search(r"Ok\s*\(\s*WriteContext", bt)
seq_durable_first = bool(p_upd and p_ok and p_upd.start() < p_ok.start())
jr = fn_body(sp, "journal")
journal_seq = bool(re.search(r"seq\s*:\s*cx\s*\.\s*seq\s*,", jr)) and bool(re.search(r"tx_id\s*:\s*cx\s*\.\s*tx_id", jr))

# ---------------------------------------------------------------- store/history.rs
hs = strip_rust_comments(read_source(repo, "rs/anda_cognitive_nexus/src/store/history.rs"))
ea = fn_body(hs, "element_at")
ea_le = bool(re.search(r"RangeQuery\s*::\s*Le\s*\(\s*Fv\s*::\s*U64\s*\(\s*seq\s*\)\s*\)", ea))
ea_max = bool(re.search(r"\(\s*row\s*\.\s*seq\s*,\s*row\s*\.\s*version\s*\)\s*>\s*\(\s*current\s*\.\s*seq\s*,\s*current\s*\.\s*version\s*\)", ea))
es = fn_body(hs, "elements_at")
es_le = bool(re.search(r"RangeQuery\s*::\s*Le\s*\(\s*Fv\s*::\s*U64\s*\(\s*seq\s*\)\s*\)", es))
es_max = bool(re.search(r"\(\s*current\s*\.\s*seq\s*,\s*current\s*\.\s*version\s*\)\s*>=\s*\(\s*row\s*\.\s*seq\s*,\s*row\s*\.\s*version\s*\)", es))
rv = fn_body(hs, "record_version")
rv_seq = bool(re.search(r"seq\s*:\s*cx\s*\.\s*seq\s*,", rv)) and bool(re.search(r"\.\s*add_from\s*\(", rv))
st = fn_body(hs, "seq_at_time")
st_rule = bool(re.search(r"row\s*\.\s*committed_at\s*\.\s*as_str\s*\(\s*\)\s*<=\s*at\s*&&\s*row\s*\.\s*seq\s*>\s*seq", st))


FACTS = """theorem gen_commit_order :
    commitOrder = [.governance, .refClosure, .keyIdentity, .writeLoop, .discardUnstaged, .journal, .flush] := by decide
theorem gen_purge_in_loop : purgeErasureInLoop = true := by decide
theorem gen_dry_run : (dryRunFirst && dryRunDiscardsShells && dryRunReturns && !dryRunWrites) = true := by decide
theorem gen_write_loop :
    (loopSkipsUnchanged && versionRuleOncePerElement && loopWritePropagatesError && statusRule &&
     writePutsBeforeVersionLog && writePromotesPending && writeStampsVersionAndSeq && markChangedRule) = true := by decide
theorem gen_abort : (executeOrder && abortOnPlanError && abortDiscardsShells && shellIsPending) = true := by decide
theorem gen_check_failure_discards : checkFailureDiscardsShells = true := by decide
theorem gen_ensure_consults_staged : ensureConsultsStaged = true := by decide
theorem gen_plan :
    (declareBeforeApply && passFilter) = true ∧ planPasses = 3 ∧ passCreateConcept = 0 ∧ passUpsertConcept = 1 ∧
    passEnsureProposition = 1 ∧ passOther = 2 ∧
    passExplicit = ["CreateConcept", "EnsureProposition", "UpsertConcept"] ∧
    declaredInPhase1 = ["CreateActivity", "CreateAssertion", "CreateConcept", "CreateEvidence"] := by decide
theorem gen_locks :
    lockKml = .exclusive ∧ lockKql = .shared ∧ lockMeta = .shared ∧
    (lockHeldAcrossKml && lockHeldAcrossKql && lockHeldAcrossMeta) = true := by decide
theorem gen_seq : (seqIsNext && seqDurableBeforeUse && journalCarriesCxSeq && versionRowCarriesCxSeq) = true := by decide
theorem gen_history : (historyReadsAtOrBefore && historyTakesGreatest && seqAtTimeRule) = true := by decide
"""


def b(x):
    return "true" if x else "false"


def lk(name):
    kind, ok = locks[name]
    return (".exclusive" if kind == "write" else ".shared"), ok


text = f"""/- GENERATED by bin/translate/c17_nexus_order.py from rs/anda_cognitive_nexus/src/{{tx.rs, kml/mod.rs,
kml/clauses.rs, nexus.rs, store/space.rs, store/history.rs}} — do not edit. -/
namespace AndaVerif.Gen.NexusOrder

/-- the steps of the non-dry half of `Transaction::commit` -/
inductive CommitStep where
  | governance | refClosure | keyIdentity | writeLoop | discardUnstaged | journal | flush
  /-- `remove_versions` of the staged purges as a step of its own (only when it is *not* inside the write loop) -/
  | eraseVersions
  deriving DecidableEq, Repr

/-- their order in the source (first occurrence of each call in the body of `commit`) -/
def commitOrder : List CommitStep := [{", ".join("." + n for n in order)}]

/-- the `if self.dry_run` branch comes first, discards its shells, returns, and writes nothing -/
def dryRunFirst : Bool := {b(dry_first)}
def dryRunDiscardsShells : Bool := {b(dry_discards)}
def dryRunReturns : Bool := {b(dry_returns)}
def dryRunWrites : Bool := {b(dry_writes)}

/-- `remove_versions` for a staged purge runs inside the write loop, right before that row's write -/
def purgeErasureInLoop : Bool := {b(purge_in_loop)}
/-- inside the write loop -/
def loopSkipsUnchanged : Bool := {b(skips_unchanged)}
/-- `version = if staged.is_new {{ 1 }} else {{ staged.row.version().saturating_add(1) }}` (loop and change_records) -/
def versionRuleOncePerElement : Bool := {b(version_rule and cr_rule and cr_filter)}
def loopWritePropagatesError : Bool := {b(write_propagates)}
/-- `status = if written == 0 {{ NoEffect }} else {{ Committed }}` -/
def statusRule : Bool := {b(status_rule)}
/-- `Transaction::write`: `store.put` before `record_version`; `pending`/empty becomes `active`;
`row.version = version`, `row.seq = cx.seq` -/
def writePutsBeforeVersionLog : Bool := {b(put_first)}
def writePromotesPending : Bool := {b(promotes)}
def writeStampsVersionAndSeq : Bool := {b(stamps)}
/-- `Transaction::abort` = `discard_shells`; a shell is inserted in state `pending` -/
def abortDiscardsShells : Bool := {b(abort_discards)}
def shellIsPending : Bool := {b(shell_pending)}
def markChangedRule : Bool := {b(mark_ok)}

/-- `kml::execute`: begin → plan → commit; `tx.abort()` precedes the return of a planning error;
-/
def executeOrder : Bool := {b(exec_order_ok)}
def abortOnPlanError : Bool := {b(abort_on_plan_error)}
/-- a failing pre-commit check discards the statement's shells before the error is returned -/
def checkFailureDiscardsShells : Bool := {b(check_failure_discards)}
/-- `ensure_proposition`: store lookup, then the rows staged for creation (`is_new` Propositions with
the same `tuple_key`: bind and return), then mint -/
def ensureConsultsStaged : Bool := {b(ensure_consults_staged)}
/-- `kml::plan`: every handle is declared before the first pass; a pass skips other passes' clauses -/
def declareBeforeApply : Bool := {b(declare_first)}
def passFilter : Bool := {b(pass_filter)}

/-- `clauses::PLAN_PASSES` and the `plan_pass` table -/
def planPasses : Nat := {passes}
def passCreateConcept : Nat := {table["CreateConcept"]}
def passUpsertConcept : Nat := {table["UpsertConcept"]}
def passEnsureProposition : Nat := {table["EnsureProposition"]}
def passOther : Nat := {table["_"]}
def passExplicit : List String := [{", ".join('"' + k + '"' for k in sorted(table) if k != "_")}]
/-- the clause variants `declare_handles` mints a shell for in phase 1 -/
def declaredInPhase1 : List String := [{", ".join('"' + k + '"' for k in declared)}]

inductive LockKind where
  | shared | exclusive
  deriving DecidableEq, Repr

/-- `Session::execute`: the Nexus `RwLock` side each `Command` arm takes (held in a named guard,
acquired before the family's `execute`) -/
def lockKml : LockKind := {lk("Kml")[0]}
def lockKql : LockKind := {lk("Kql")[0]}
def lockMeta : LockKind := {lk("Meta")[0]}
def lockHeldAcrossKml : Bool := {b(lk("Kml")[1])}
def lockHeldAcrossKql : Bool := {b(lk("Kql")[1])}
def lockHeldAcrossMeta : Bool := {b(lk("Meta")[1])}

/-- `begin_transaction`: `seq = space.seq + 1`, written to the Space row before the context exists;
the journal row and every version row carry `cx.seq` -/
def seqIsNext : Bool := {b(seq_next)}
def seqDurableBeforeUse : Bool := {b(seq_durable_first)}
def journalCarriesCxSeq : Bool := {b(journal_seq)}
def versionRowCarriesCxSeq : Bool := {b(rv_seq)}

/-- `element_at` / `elements_at`: rows with `seq ≤ coordinate`, greatest `(seq, version)` wins;
`seq_at_time`: greatest seq among rows with `committed_at ≤ t` -/
def historyReadsAtOrBefore : Bool := {b(ea_le and es_le)}
def historyTakesGreatest : Bool := {b(ea_max and es_max)}
def seqAtTimeRule : Bool := {b(st_rule)}

end AndaVerif.Gen.NexusOrder
"""
write_gen(gen, "NexusOrder.lean", text)

# the kernel-checked facts live in their own module: when an edit breaks one of them the data module
# (and with it the model and its driver) still builds, so the model runs the *edited* program and
# the harness can look for the input on which the property now fails
facts = f"""/- GENERATED by bin/translate/c17_nexus_order.py — facts about Gen/NexusOrder.lean that the proofs of
C17 / C18 start from — do not edit. -/
import AndaVerif.Gen.NexusOrder
namespace AndaVerif.Gen.NexusOrder

FACTS
end AndaVerif.Gen.NexusOrder
"""
write_gen(gen, "NexusOrderFacts.lean", facts.replace("FACTS", FACTS))
