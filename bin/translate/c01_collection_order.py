#!/usr/bin/env python3
"""C01: regenerates, from rs/anda_db/src/collection.rs, the *order* and *guards* that make the
durability contract hold, as data the Lean crash machine (Model/Durability.lean) runs on:

  * `flush_inner`  - ordered effect markers  indexes / metaPut / idsPut / checkpoint / retire
                     (the model's flush interprets this list: a reordering in the source is a
                     reordering of the model's program, and `gen_flush_order` stops checking);
  * `add_impl`, `update_impl`, `remove_impl`, `open` - ordered effect markers
                     (volatile and durable), compared with the order the model hard-codes;
  * the `self.storage.<mutator>(` calls each of those functions reaches (exact multiset, private
    helpers followed), so a new write the model does not know about is an error, never a default;
  * `ALLOCATION_WATERMARK_STRIDE`, the watermark target expression, the bounds of the reopen
    repair scan (`check_point + 1 ..= max(max_document_id, durable_alloc_watermark)`);
  * which failure branches poison the handle (update PUT, remove DELETE, add cleanup DELETE,
    flush, close), and that `store_metadata_unclaimed` does not advance `last_saved_version`.

Robust against behaviour-preserving rewrites: every scan runs on `inlined_body` (calls of functions
defined in collection.rs textually inlined, recursively, each prefixed by `/*callee*/`), so a block
extracted into a private helper, or a helper inlined, shows the same effects in the same order.
Markers key on WHAT IS CALLED / which field or constant is touched (`self.storage.create(`,
`Self::IDS_PATH`, `self.doc_ids.write()`, `index_hooks`, `stats.version += 1`, `/*poison*/` …) and on
first-occurrence order — never on the names of locals, closure parameters or temporaries. Where an
expression has to be inspected (scan bounds, watermark) the identifiers are first discovered from
the shape (`(a + 1)..=b`) and then resolved through their own `let`.
Strict about meaning: a missing marker, an unexpected storage mutator, an unresolvable bound is an
error, never a default.
"""
import re, sys
from common import *

repo, gen = sys.argv[1], sys.argv[2]
SRC = cut_tests(strip_rust_comments(read_source(repo, "rs/anda_db/src/collection.rs")))
T = "c01_collection_order"

# inlined_body leaves `/*callee*/` markers; strip_rust_comments ran BEFORE, so they survive
_cache = {}


def body(fn):
    if fn not in _cache:
        _cache[fn] = inlined_body(SRC, fn)
    return _cache[fn]


def open_body():
    """`open` builds the collection in a local (`let mut <c> = Self { … }`) and calls its methods on
    that local; rewrite `<c>.` to `self.` so that those calls are followed like any other helper"""
    raw = fn_body(SRC, "open")
    m = re.search(r"\blet\s+(?:mut\s+)?(\w+)\s*=\s*Self\s*\{", raw)
    if not m:
        die(f"{T}: `let <c> = Self {{ … }}` not found in open")
    rewritten = re.sub(r"(?<![\w.])" + re.escape(m.group(1)) + r"\s*\.", "self.", raw)
    src2 = SRC.replace(raw, rewritten, 1)
    return inlined_body(src2, "open")


def called(name):
    """regex alternatives for "function `name` of this file is called here" in an inlined body"""
    return [r"/\*" + name + r"\*/", r"\bself\s*\.\s*" + name + r"\s*\(", r"\bSelf::\s*" + name + r"\s*\("]


STORAGE = r"\bself\s*\.\s*storage\s*\.\s*"


def pos(text, pats, what, fn):
    p = first_pos(text, pats)
    if p < 0:
        die(f"{T}: marker `{what}` not found in {fn}")
    return p


def ordered(fn, markers):
    text = body(fn)
    ps = sorted((pos(text, pats, name, fn), name) for name, pats in markers)
    return [n for _, n in ps]


def storage_mutators(fn):
    """multiset of `self.storage.<mutator>(` calls reachable from fn (helpers of this file followed)"""
    return sorted(m.group(1) for m in re.finditer(
        STORAGE + r"(create|put_bytes|put|delete|store_metadata|drop_data|drop_prefix|to_writer|stream_writer)\s*\(", body(fn)))


def expect_mutators(fn, expected):
    got = storage_mutators(fn)
    if got != sorted(expected):
        die(f"{T}: {fn} reaches storage mutators {got}, the model knows {sorted(expected)}")


def strip_ws(s):
    return re.sub(r"\s+", "", s)


def let_expr(text, ident, before):
    """expression of the last `let [mut] ident = …;` that starts before position `before`"""
    best = None
    for m in re.finditer(r"\blet\s+(?:mut\s+)?" + re.escape(ident) + r"\s*(?::[^=;]+)?=\s*", text[:before]):
        best = m
    if not best:
        return None
    i, depth = best.end(), 0
    while i < len(text):
        c = text[i]
        if c in "([{":
            depth += 1
        elif c in ")]}":
            depth -= 1
        elif c == ";" and depth == 0:
            return text[best.end():i]
        i += 1
    return None


def brace_block(text, i):
    """text[i] == '{' → (content, index after the closing brace)"""
    depth, j = 0, i
    while j < len(text):
        if text[j] == "{":
            depth += 1
        elif text[j] == "}":
            depth -= 1
            if depth == 0:
                return text[i + 1:j], j + 1
        j += 1
    return text[i + 1:], len(text)


def failure_blocks(text, p_call, what, fn):
    """The code that runs when the fallible call starting at p_call (`self.storage.put(` …) returns Err,
    whatever the spelling: `if let Err(e) = CALL { B }`, `match CALL { … Err(e) => B … }`,
    `let Ok(x) = CALL else { B }`. Returns the list of failure blocks (one per `Err` arm)."""
    # end of the call expression
    i = text.index("(", p_call)
    depth = 0
    while i < len(text):
        if text[i] in "([{":
            depth += 1
        elif text[i] in ")]}":
            depth -= 1
            if depth == 0:
                break
        i += 1
    rest = text[i + 1:]
    m = re.match(r"\s*(?:\.\s*await)?\s*", rest)
    after = i + 1 + m.end()
    stmt_start = max(text.rfind(";", 0, p_call), text.rfind("}", 0, p_call)) + 1
    head = text[stmt_start:p_call]
    if re.search(r"\blet\s+Err\s*\(", head):                        # if let Err(e) = CALL { B }
        j = text.index("{", after)
        return [brace_block(text, j)[0]]
    if re.match(r"else\b", text[after:]):                             # let Ok(x) = CALL else { B }
        j = text.index("{", after)
        return [brace_block(text, j)[0]]
    if re.search(r"\bmatch\s*$", head.rstrip() + " ") or re.search(r"\bmatch\b[^;{}]*$", head):   # match CALL { arms }
        j = text.index("{", after)
        arms, _ = brace_block(text, j)
        out = []
        for a in re.finditer(r"\bErr\s*\(", arms):
            # skip the pattern, find `=>`
            k = arms.find("=>", a.end())
            if k < 0:
                continue
            k2 = k + 2
            while k2 < len(arms) and arms[k2].isspace():
                k2 += 1
            if k2 < len(arms) and arms[k2] == "{":
                out.append(brace_block(arms, k2)[0])
            else:
                d, e = 0, k2
                while e < len(arms) and not (arms[e] == "," and d == 0):
                    d += {"(": 1, "[": 1, "{": 1, ")": -1, "]": -1, "}": -1}.get(arms[e], 0)
                    e += 1
                out.append(arms[k2:e])
        if out:
            return out
    die(f"{T}: cannot find the failure branch of `{what}` in {fn}")


def failure_poisons(text, p_call, what, fn):
    return any(first_pos(blk, called("poison")) >= 0 for blk in failure_blocks(text, p_call, what, fn))


# ---------------------------------------------------------------------------------------------
# flush_inner
IDS_PUT = [r"/\*store_ids\*/", STORAGE + r"put\w*\s*\(\s*Self::IDS_PATH"]
META_PUT = [r"/\*store_metadata\*/", STORAGE + r"put\w*\s*\(\s*Self::METADATA_PATH"]
flush_order = ordered("flush_inner", [
    ("indexes", called("store_indexes") + [r"\.\s*flush\s*\(\s*\w+\s*\)\s*\)"]),
    ("metaPut", META_PUT),
    ("idsPut", IDS_PUT),
    ("checkpoint", [STORAGE + r"store_metadata\s*\("]),
    ("retire", called("clear_mutation_intents")),
])
expect_mutators("flush_inner", ["put_bytes", "put", "store_metadata", "delete", "delete"])

# store_metadata returns the snapshot's max_document_id as the checkpoint
sm = body("store_metadata")
checkpoint_is_snapshot_max = bool(re.search(r"Ok\s*\(\s*Some\s*\(\s*\w+\s*\.\s*stats\s*\.\s*max_document_id\s*\)\s*\)", sm))
# … and is the only place of the flush path that advances last_saved_version
store_metadata_claims = "last_saved_version" in sm
unclaimed_keeps_version = "last_saved_version" not in body("store_metadata_unclaimed")
expect_mutators("store_metadata_unclaimed", ["put_bytes"])

# ---------------------------------------------------------------------------------------------
# add_impl
INDEX_MUT = [r"\bindex_hooks\s*\.", r"\bindex\s*\.\s*(?:insert|update|remove)\s*\("]
VERSION = [r"\.\s*stats\s*\.\s*version\s*\+=\s*1", r"\bstats\s*\.\s*version\s*\+=\s*1"]
IDS_WRITE = [r"\bself\s*\.\s*doc_ids\s*\.\s*write\s*\(\s*\)"]
add_order = ordered("add_impl", [
    ("alloc", [r"\bmax_document_id\s*\.\s*fetch_add\s*\("]),
    ("watermark", called("ensure_allocation_watermark") + [r"Self::ALLOCATION_WATERMARK_PATH"]),
    ("index", INDEX_MUT),
    ("docCreate", [STORAGE + r"create\s*\("]),
    ("cleanupDelete", [STORAGE + r"delete\s*\("]),
    ("idsAdd", IDS_WRITE),
    ("version", VERSION),
])
expect_mutators("add_impl", ["put", "create", "delete"])
add = body("add_impl")
p_create = pos(add, [STORAGE + r"create\s*\("], "docCreate", "add_impl")
p_del = pos(add, [STORAGE + r"delete\s*\("], "cleanupDelete", "add_impl")
p_ids = pos(add, IDS_WRITE, "idsAdd", "add_impl")
add_cleanup_poisons = failure_poisons(add, p_del, "cleanup DELETE", "add_impl")
add_exists_skips_cleanup = bool(re.search(r"!\s*matches!\s*\(\s*&?\w+\s*,\s*DBError::AlreadyExists", add[p_create:p_del]))

wm = body("ensure_allocation_watermark")
stride = int_const(SRC, "ALLOCATION_WATERMARK_STRIDE")
wm_target_ok = bool(re.search(
    r"max_document_id\s*\.\s*load\s*\([^)]*\)\s*\.\s*max\s*\(\s*\w+\s*\)\s*\.\s*saturating_add\s*\(\s*Self::ALLOCATION_WATERMARK_STRIDE\s*\)", wm))
# "already covered" guard: `<id> <= self.durable_alloc_watermark.load(..)` is evaluated before the PUT
_g = first_pos(wm, [r"\b\w+\s*<=\s*self\s*\.\s*durable_alloc_watermark\s*\.\s*load"])
wm_guard_ok = 0 <= _g < pos(wm, [STORAGE + r"put\s*\("], "watermark PUT", "ensure_allocation_watermark")
expect_mutators("ensure_allocation_watermark", ["put"])
wm_put_before_publish = pos(wm, [STORAGE + r"put\s*\("], "watermark PUT", "ensure_allocation_watermark") < \
    pos(wm, [r"durable_alloc_watermark\s*\.\s*fetch_max\s*\("], "watermark publish", "ensure_allocation_watermark")

# ---------------------------------------------------------------------------------------------
# update_impl / remove_impl
READ = [STORAGE + r"get\s*::"]
INTENT = called("record_mutation_intent") + [r"\bmutation_intent_path\s*\("]
upd_order = ordered("update_impl", [
    ("read", READ),
    ("intent", INTENT),
    ("index", INDEX_MUT),
    ("docPut", [STORAGE + r"put\s*\("]),
    ("version", VERSION),
])
expect_mutators("update_impl", ["create", "put"])
upd = body("update_impl")
p_put = pos(upd, [STORAGE + r"put\s*\("], "docPut", "update_impl")
p_ver = pos(upd, VERSION, "version", "update_impl")
upd_poisons = failure_poisons(upd, p_put, "document PUT", "update_impl")
# (before, after): two different documents, both present
m = re.search(r"(?:/\*record_mutation_intent\*/|record_mutation_intent\s*\()\s*\w+\s*,\s*Some\s*\(\s*&?\s*(\w+)\s*\)\s*,\s*Some\s*\(\s*&?\s*(\w+)\s*\)", upd)
upd_intent_both = bool(m) and m.group(1) != m.group(2)

rem_order = ordered("remove_impl", [
    ("read", READ),
    ("intent", INTENT),
    ("index", INDEX_MUT),
    ("docDelete", [STORAGE + r"delete\s*\("]),
    ("idsRemove", IDS_WRITE),
    ("version", VERSION),
])
expect_mutators("remove_impl", ["create", "delete"])
rem = body("remove_impl")
p_del = pos(rem, [STORAGE + r"delete\s*\("], "docDelete", "remove_impl")
p_idr = pos(rem, IDS_WRITE, "idsRemove", "remove_impl")
rem_poisons = failure_poisons(rem, p_del, "document DELETE", "remove_impl")
rem_intent_prev_only = bool(re.search(
    r"(?:/\*record_mutation_intent\*/|record_mutation_intent\s*\()\s*\w+\s*,\s*Some\s*\(\s*&?\s*\w+\s*\)\s*,\s*None\b", rem))

# intents: create-if-absent; retirement deletes pending and stale intent objects
expect_mutators("record_mutation_intent", ["create"])
expect_mutators("clear_mutation_intents", ["delete", "delete"])

# ---------------------------------------------------------------------------------------------
# open
_cache["open"] = open_body()
open_order = ordered("open", [
    ("loadMeta", [r"fetch\s*::\s*<\s*CollectionMetadata\s*>"]),
    ("loadIds", [r"Self::IDS_PATH"]),
    ("loadWatermark", [r"Self::ALLOCATION_WATERMARK_PATH"]),
    ("loadIndexes", called("load_indexes") + [r"::\s*bootstrap\s*\("]),
    # the caller's callback: a call of a parameter (not a function of this file) on `&mut <collection>`
    ("callback", [r"(?<![\w.:])\w+\s*\(\s*&mut\s+\w+\s*\)\s*\.\s*await"]),
    ("replay", called("replay_mutation_intents") + [r"Self::MUTATION_INTENT_PREFIX"]),
    ("repair", called("auto_repair_indexes")),
])
expect_mutators("open", [])
opn = body("open")
open_wm_max_meta = False
m = re.search(r"durable_alloc_watermark\s*:\s*AtomicU64::new\s*\(\s*(\w+)\s*\.\s*max\s*\(\s*(\w+)\s*\)\s*\)", opn)
if m and m.group(1) != m.group(2):
    e1, e2 = let_expr(opn, m.group(1), m.start()), let_expr(opn, m.group(2), m.start())
    if e1 is not None and e2 is not None:
        pair = {("ALLOCATION_WATERMARK_PATH" in e, "max_document_id" in e) for e in (e1, e2)}
        open_wm_max_meta = pair == {(True, False), (False, True)}

# the repair scan: `(a + 1)..=b` with a = storage checkpoint, b = max(max_document_id, watermark)
rep = body("auto_repair_indexes")
expect_mutators("auto_repair_indexes", [])
ranges = list(re.finditer(r"\(\s*(\w+)\s*\+\s*1\s*\)\s*\.\.=\s*(\w+)", rep))
if len(ranges) != 1:
    die(f"{T}: expected exactly one `(a + 1)..=b` scan range in auto_repair_indexes, found {len(ranges)}")
lo_e, hi_e = let_expr(rep, ranges[0].group(1), ranges[0].start()), let_expr(rep, ranges[0].group(2), ranges[0].start())
if lo_e is None or hi_e is None:
    die(f"{T}: cannot resolve the bounds `{ranges[0].group(1)}` / `{ranges[0].group(2)}` of the repair scan in auto_repair_indexes")
lo_s, hi_s = strip_ws(lo_e), strip_ws(hi_e)
scan_from_cp = lo_s == "self.storage.stats().check_point"
LOAD = r"\.load\(Ordering::\w+\)"
scan_uses_max = bool(re.search(r"self\.max_document_id" + LOAD, hi_s))
scan_uses_wm = bool(re.fullmatch(
    r"self\.max_document_id" + LOAD + r"\.max\(self\.durable_alloc_watermark" + LOAD + r"\)"
    r"|self\.durable_alloc_watermark" + LOAD + r"\.max\(self\.max_document_id" + LOAD + r"\)", hi_s))

# replay: both recorded images leave the indexes before the stored document is fetched and re-inserted
rec = body("reconcile_mutation_intents")
expect_mutators("reconcile_mutation_intents", [])
p_prev = pos(rec, [r"\.\s*previous\b"], "previous image", "reconcile_mutation_intents")
p_prop = pos(rec, [r"\.\s*proposed\b"], "proposed image", "reconcile_mutation_intents")
p_rm = pos(rec, called("remove_document_from_indexes"), "remove images", "reconcile_mutation_intents")
p_fetch = pos(rec, [r"fetch\s*::\s*<\s*DocumentOwned\s*>"], "fetch stored document", "reconcile_mutation_intents")
p_ins = pos(rec, called("insert_document_into_indexes"), "re-insert", "reconcile_mutation_intents")
replay_removes_first = max(p_prev, p_prop) < p_fetch and p_rm < p_fetch < p_ins

# flush()/close() poison after a failed flush_inner (the inlined flush_inner block itself is skipped;
# helpers called afterwards are followed)
def poisons_after_flush_inner(fn):
    txt = body(fn)
    p = first_pos(txt, [r"/\*flush_inner\*/"])
    if p < 0:
        die(f"{T}: {fn} does not reach flush_inner")
    depth, j = 1, p
    while j < len(txt) and depth:
        depth += {"{": 1, "}": -1}.get(txt[j], 0)
        j += 1
    return first_pos(txt[j:], called("poison")) >= 0


flush_poisons = poisons_after_flush_inner("flush")
close_poisons = poisons_after_flush_inner("close")


def b(x):
    return "true" if x else "false"


def lst(xs):
    return "[" + ", ".join(f".{x}" for x in xs) + "]"


text = f"""/- GENERATED by bin/translate/c01_collection_order.py from rs/anda_db/src/collection.rs — do not edit. -/
namespace AndaVerif.Gen.CollectionOrder

inductive FlushStep | indexes | metaPut | idsPut | checkpoint | retire
deriving DecidableEq, Repr

inductive AddStep | alloc | watermark | index | docCreate | cleanupDelete | idsAdd | version
deriving DecidableEq, Repr

inductive UpdStep | read | intent | index | docPut | version
deriving DecidableEq, Repr

inductive RemStep | read | intent | index | docDelete | idsRemove | version
deriving DecidableEq, Repr

inductive OpenStep | loadMeta | loadIds | loadWatermark | loadIndexes | callback | replay | repair
deriving DecidableEq, Repr

/-- effect markers of `flush_inner` by first occurrence: the program the model's flush interprets -/
def flushOrder : List FlushStep := {lst(flush_order)}
/-- `add_impl` -/
def addOrder : List AddStep := {lst(add_order)}
/-- `update_impl` -/
def updateOrder : List UpdStep := {lst(upd_order)}
/-- `remove_impl` -/
def removeOrder : List RemStep := {lst(rem_order)}
/-- `Collection::open` -/
def openOrder : List OpenStep := {lst(open_order)}

/-- `Collection::ALLOCATION_WATERMARK_STRIDE` -/
def allocationWatermarkStride : Nat := {stride}
/-- the watermark target is `max_document_id.max(id) + STRIDE`, guarded by `id <= durable_alloc_watermark` -/
def watermarkTargetIsMaxPlusStride : Bool := {b(wm_target_ok and wm_guard_ok)}
/-- the in-memory watermark is published only after the PUT returned -/
def watermarkPutBeforePublish : Bool := {b(wm_put_before_publish)}
/-- `open` starts the in-memory watermark at `max(alloc_watermark, metadata.max_document_id)` -/
def openWatermarkMaxWithMeta : Bool := {b(open_wm_max_meta)}

/-- `store_metadata` returns the snapshot's `max_document_id` as the checkpoint and is where
`last_saved_version` advances -/
def checkpointIsSnapshotMax : Bool := {b(checkpoint_is_snapshot_max and store_metadata_claims)}
/-- `store_metadata_unclaimed` (save_extension) never touches `last_saved_version` -/
def unclaimedMetaKeepsVersion : Bool := {b(unclaimed_keeps_version)}

/-- the reopen repair scan iterates `(check_point + 1)..=scan_max` with `check_point` from the storage stats -/
def scanStartsAfterCheckpoint : Bool := {b(scan_from_cp)}
/-- `scan_max` mentions `max_document_id` -/
def scanUsesMaxId : Bool := {b(scan_uses_max)}
/-- `scan_max` is `max_document_id.max(durable_alloc_watermark)` -/
def scanUsesWatermark : Bool := {b(scan_uses_wm)}
/-- intent replay removes both recorded images of every intent before any re-insert -/
def replayRemovesBothImagesFirst : Bool := {b(replay_removes_first)}

/-- failure branches that poison the handle -/
def updatePoisonsOnPutError : Bool := {b(upd_poisons)}
def removePoisonsOnDeleteError : Bool := {b(rem_poisons)}
def addPoisonsOnCleanupError : Bool := {b(add_cleanup_poisons)}
def addExistsSkipsCleanup : Bool := {b(add_exists_skips_cleanup)}
def flushPoisonsOnError : Bool := {b(flush_poisons)}
def closePoisonsOnError : Bool := {b(close_poisons)}
/-- update records (before, after), remove records (before, none) -/
def updateIntentHasBothImages : Bool := {b(upd_intent_both)}
def removeIntentHasPrevOnly : Bool := {b(rem_intent_prev_only)}

theorem gen_flush_order : flushOrder = [.indexes, .metaPut, .idsPut, .checkpoint, .retire] := by decide
theorem gen_add_order : addOrder = [.alloc, .watermark, .index, .docCreate, .cleanupDelete, .idsAdd, .version] := by decide
theorem gen_update_order : updateOrder = [.read, .intent, .index, .docPut, .version] := by decide
theorem gen_remove_order : removeOrder = [.read, .intent, .index, .docDelete, .idsRemove, .version] := by decide
theorem gen_open_order : openOrder = [.loadMeta, .loadIds, .loadWatermark, .loadIndexes, .callback, .replay, .repair] := by decide
theorem gen_stride_pos : 0 < allocationWatermarkStride := by decide
theorem gen_watermark : (watermarkTargetIsMaxPlusStride && watermarkPutBeforePublish && openWatermarkMaxWithMeta) = true := by decide
theorem gen_flush_guards : (checkpointIsSnapshotMax && unclaimedMetaKeepsVersion) = true := by decide
theorem gen_scan : (scanStartsAfterCheckpoint && scanUsesMaxId && scanUsesWatermark && replayRemovesBothImagesFirst) = true := by decide
theorem gen_poison : (updatePoisonsOnPutError && removePoisonsOnDeleteError && addPoisonsOnCleanupError && addExistsSkipsCleanup && flushPoisonsOnError && closePoisonsOnError) = true := by decide
theorem gen_intent_images : (updateIntentHasBothImages && removeIntentHasPrevOnly) = true := by decide

end AndaVerif.Gen.CollectionOrder
"""
write_gen(gen, "CollectionOrder.lean", text)
