#!/usr/bin/env python3
"""C01: regenerates, from rs/anda_db/src/collection.rs, the *order* and *guards* that make the
durability contract hold, as data the Lean crash machine (Model/Durability.lean) runs on:

  * `flush_inner`  - ordered effect markers  indexes / meta / ids / checkpoint / retire
                     (the model's flush interprets this list: a reordering in the source is a
                     reordering of the model's program, and `gen_flush_order` stops checking);
  * `add_impl`, `update_impl`, `remove_impl`, `open` - ordered effect markers
                     (volatile and durable), compared with the order the model hard-codes;
  * the storage mutators each of those functions calls (exact multiset, so a new write that the
    model does not know about is an error, never a default);
  * `ALLOCATION_WATERMARK_STRIDE`, the watermark target expression, the bounds of the reopen
    repair scan (`check_point + 1 ..= max(max_document_id, durable_alloc_watermark)`);
  * which failure branches poison the handle (update PUT, remove DELETE, add cleanup DELETE,
    flush, close), and that `store_metadata_unclaimed` does not advance `last_saved_version`.

Strict about meaning, tolerant about layout: works on a comment-stripped copy, keys on call names.
"""
import re, sys
from common import *

repo, gen = sys.argv[1], sys.argv[2]
src = strip_rust_comments(read_source(repo, "rs/anda_db/src/collection.rs"))


def first(body, pat, what, fn):
    m = re.search(pat, body)
    if not m:
        die(f"c01_collection_order: marker `{what}` not found in {fn}")
    return m.start()


def count(body, pat):
    return len(re.findall(pat, body))


def ordered(fn, body, markers):
    """markers: list of (lean_ctor, regex, expected_count or None). Returns ctor names by first occurrence."""
    pos = []
    for name, pat, exp in markers:
        p = first(body, pat, name, fn)
        n = count(body, pat)
        if exp is not None and n != exp:
            die(f"c01_collection_order: marker `{name}` occurs {n} times in {fn}, expected {exp}")
        pos.append((p, name))
    pos.sort()
    return [n for _, n in pos]


def storage_mutators(fn, body):
    """every `self.storage.<mutator>(` call and helper that writes, in textual order"""
    out = []
    for m in re.finditer(r"self\s*\.\s*storage\s*\.\s*(create|put_bytes|put|delete|store_metadata|drop_data|drop_prefix)\s*\(", body):
        out.append("storage." + m.group(1))
    for m in re.finditer(r"self\s*\.\s*(record_mutation_intent|ensure_allocation_watermark|store_metadata_unclaimed|store_metadata|store_ids|store_indexes|clear_mutation_intents)\s*\(", body):
        out.append(m.group(1))
    return sorted(out)


def expect_mutators(fn, body, expected):
    got = storage_mutators(fn, body)
    if got != sorted(expected):
        die(f"c01_collection_order: {fn} calls storage mutators {got}, the model knows {sorted(expected)}")


# ---------------------------------------------------------------------------------------------
flush = fn_body(src, "flush_inner")
flush_order = ordered("flush_inner", flush, [
    ("indexes", r"self\s*\.\s*store_indexes\s*\(", 1),
    ("metaPut", r"self\s*\.\s*store_metadata\s*\(", 1),
    ("idsPut", r"self\s*\.\s*store_ids\s*\(", 1),
    ("checkpoint", r"self\s*\.\s*storage\s*\.\s*store_metadata\s*\(", 1),
    ("retire", r"self\s*\.\s*clear_mutation_intents\s*\(", 1),
])
expect_mutators("flush_inner", flush, ["store_indexes", "store_metadata", "store_ids", "storage.store_metadata", "clear_mutation_intents"])
# ids and checkpoint only run when the metadata write happened (`if let Some(check_point) = stored_check_point`)
m = re.search(r"if\s+let\s+Some\s*\(\s*(\w+)\s*\)\s*=\s*(\w+)\s*\{", flush)
if not m:
    die("c01_collection_order: `if let Some(check_point) = stored_check_point {` not found in flush_inner")
blk_start = m.end()
depth, j = 1, blk_start
while j < len(flush) and depth:
    depth += {"{": 1, "}": -1}.get(flush[j], 0)
    j += 1
blk = flush[blk_start:j]
ids_cp_guarded = bool(re.search(r"self\s*\.\s*store_ids\s*\(", blk)) and bool(re.search(r"self\s*\.\s*storage\s*\.\s*store_metadata\s*\(\s*" + re.escape(m.group(1)), blk))
retire_guarded = bool(re.search(r"if\s+has_pending_mutations\s*\{\s*self\s*\.\s*clear_mutation_intents", flush))
index_guarded = bool(re.search(r"if\s+has_pending_indexes\s*\{\s*self\s*\.\s*store_indexes", flush))

# store_metadata: returns the snapshot's max_document_id as the checkpoint, advances last_saved_version
sm = fn_body(src, "store_metadata")
checkpoint_is_snapshot_max = bool(re.search(r"Ok\s*\(\s*Some\s*\(\s*metadata\s*\.\s*stats\s*\.\s*max_document_id\s*\)\s*\)", sm))
smu = fn_body(src, "store_metadata_unclaimed")
unclaimed_keeps_version = "last_saved_version" not in smu

# ---------------------------------------------------------------------------------------------
add = fn_body(src, "add_impl")
add_order = ordered("add_impl", add, [
    ("alloc", r"max_document_id\s*\.\s*fetch_add\s*\(", 1),
    ("watermark", r"self\s*\.\s*ensure_allocation_watermark\s*\(", 1),
    ("index", r"index\s*\.\s*insert\s*\(", None),
    ("docCreate", r"self\s*\.\s*storage\s*\.\s*create\s*\(", 1),
    ("cleanupDelete", r"self\s*\.\s*storage\s*\.\s*delete\s*\(", 1),
    ("idsAdd", r"self\s*\.\s*doc_ids\s*\.\s*write\s*\(\s*\)\s*\.\s*add\s*\(", 1),
    ("version", r"stats\s*\.\s*version\s*\+=\s*1", 1),
])
expect_mutators("add_impl", add, ["ensure_allocation_watermark", "storage.create", "storage.delete"])
# the cleanup delete's failure branch poisons; AlreadyExists skips the cleanup
p_del = first(add, r"self\s*\.\s*storage\s*\.\s*delete\s*\(", "cleanupDelete", "add_impl")
p_ids = first(add, r"self\s*\.\s*doc_ids\s*\.\s*write", "idsAdd", "add_impl")
add_cleanup_poisons = bool(re.search(r"self\s*\.\s*poison\s*\(", add[p_del:p_ids]))
add_exists_skips_cleanup = bool(re.search(r"if\s*!\s*matches!\s*\(\s*err\s*,\s*DBError::AlreadyExists", add))

wm = fn_body(src, "ensure_allocation_watermark")
stride = int_const(src, "ALLOCATION_WATERMARK_STRIDE")
wm_target_ok = bool(re.search(
    r"max_document_id\s*\.\s*load\s*\([^)]*\)\s*\.\s*max\s*\(\s*id\s*\)\s*\.\s*saturating_add\s*\(\s*Self::ALLOCATION_WATERMARK_STRIDE\s*\)", wm))
wm_guard_ok = bool(re.search(r"if\s+id\s*<=\s*self\s*\.\s*durable_alloc_watermark\s*\.\s*load", wm))
expect_mutators("ensure_allocation_watermark", wm, ["storage.put"])
# watermark published in memory only after the PUT returned
p_put = first(wm, r"self\s*\.\s*storage\s*\.\s*put\s*\(", "watermark PUT", "ensure_allocation_watermark")
p_pub = first(wm, r"durable_alloc_watermark\s*\.\s*fetch_max\s*\(", "watermark publish", "ensure_allocation_watermark")
wm_put_before_publish = p_put < p_pub

# ---------------------------------------------------------------------------------------------
upd = fn_body(src, "update_impl")
upd_order = ordered("update_impl", upd, [
    ("read", r"self\s*\.\s*storage\s*\.\s*get\s*::", 1),
    ("intent", r"self\s*\.\s*record_mutation_intent\s*\(", 1),
    ("index", r"index\s*\.\s*update\s*\(", None),
    ("docPut", r"self\s*\.\s*storage\s*\.\s*put\s*\(", 1),
    ("version", r"stats\s*\.\s*version\s*\+=\s*1", 1),
])
expect_mutators("update_impl", upd, ["record_mutation_intent", "storage.put"])
p_put = first(upd, r"self\s*\.\s*storage\s*\.\s*put\s*\(", "docPut", "update_impl")
p_ver = first(upd, r"stats\s*\.\s*version\s*\+=\s*1", "version", "update_impl")
upd_poisons = bool(re.search(r"self\s*\.\s*poison\s*\(", upd[p_put:p_ver]))
upd_intent_both = bool(re.search(r"record_mutation_intent\s*\(\s*id\s*,\s*Some\s*\(\s*&old_doc\s*\)\s*,\s*Some\s*\(\s*&doc\s*\)\s*\)", upd))

rem = fn_body(src, "remove_impl")
rem_order = ordered("remove_impl", rem, [
    ("read", r"self\s*\.\s*storage\s*\.\s*get\s*::", 1),
    ("intent", r"self\s*\.\s*record_mutation_intent\s*\(", 1),
    ("index", r"index\s*\.\s*remove\s*\(", None),
    ("docDelete", r"self\s*\.\s*storage\s*\.\s*delete\s*\(", 1),
    ("idsRemove", r"doc_ids\s*\.\s*remove\s*\(", 1),
    ("version", r"stats\s*\.\s*version\s*\+=\s*1", 1),
])
expect_mutators("remove_impl", rem, ["record_mutation_intent", "storage.delete"])
p_del = first(rem, r"self\s*\.\s*storage\s*\.\s*delete\s*\(", "docDelete", "remove_impl")
p_idr = first(rem, r"doc_ids\s*\.\s*remove\s*\(", "idsRemove", "remove_impl")
rem_poisons = bool(re.search(r"self\s*\.\s*poison\s*\(", rem[p_del:p_idr]))
rem_intent_prev_only = bool(re.search(r"record_mutation_intent\s*\(\s*id\s*,\s*Some\s*\(\s*doc\s*\)\s*,\s*None\s*\)", rem))

# intents are written with create-if-absent and registered as pending only after the PUT returned
rmi = fn_body(src, "record_mutation_intent")
expect_mutators("record_mutation_intent", rmi, ["storage.create"])
cmi = fn_body(src, "clear_mutation_intents")
expect_mutators("clear_mutation_intents", cmi, ["storage.delete", "storage.delete"])

# ---------------------------------------------------------------------------------------------
opn = fn_body(src, "open")
open_order = ordered("open", opn, [
    ("loadMeta", r"fetch\s*::\s*<\s*CollectionMetadata\s*>", 1),
    ("loadIds", r"fetch\s*::\s*<\s*Vec\s*<\s*u8\s*>\s*>\s*\(\s*Self::IDS_PATH", 1),
    ("loadWatermark", r"fetch\s*::\s*<\s*u64\s*>\s*\(\s*Self::ALLOCATION_WATERMARK_PATH", 1),
    ("loadIndexes", r"\.\s*load_indexes\s*\(", 1),
    ("callback", r"\bf\s*\(\s*&mut\s+collection\s*\)", 1),
    ("replay", r"\.\s*replay_mutation_intents\s*\(", 1),
    ("repair", r"\.\s*auto_repair_indexes\s*\(", 1),
])
expect_mutators("open", opn, [])
open_wm_max_meta = bool(re.search(r"durable_alloc_watermark\s*:\s*AtomicU64::new\s*\(\s*alloc_watermark\s*\.\s*max\s*\(\s*metadata_max_document_id\s*\)\s*\)", opn))

rep = fn_body(src, "auto_repair_indexes")
expect_mutators("auto_repair_indexes", rep, [])
scan_from_cp = bool(re.search(r"for\s+id\s+in\s*\(\s*check_point\s*\+\s*1\s*\)\s*\.\.=\s*scan_max", rep))
m = re.search(r"let\s+scan_max\s*=\s*([^;]+);", rep)
if not m:
    die("c01_collection_order: `let scan_max = …;` not found in auto_repair_indexes")
scan_expr = re.sub(r"\s+", "", m.group(1))
scan_uses_max = "max_document_id" in scan_expr
scan_uses_wm = "durable_alloc_watermark" in scan_expr and ".max(" in scan_expr
cp_from_storage = bool(re.search(r"let\s+check_point\s*=\s*self\s*\.\s*storage\s*\.\s*stats\s*\(\s*\)\s*\.\s*check_point", rep))

rec = fn_body(src, "reconcile_mutation_intents")
expect_mutators("reconcile_mutation_intents", rec, [])
# both images are removed (first loop) before any re-insert (second loop)
p_rm = first(rec, r"self\s*\.\s*remove_document_from_indexes\s*\(\s*intent\s*\.\s*document_id", "remove images", "reconcile_mutation_intents")
p_ins = first(rec, r"self\s*\.\s*insert_document_into_indexes\s*\(", "re-insert", "reconcile_mutation_intents")
p_loop2 = first(rec, r"for\s+id\s+in\s+affected_ids", "affected loop", "reconcile_mutation_intents")
replay_removes_first = p_rm < p_loop2 < p_ins
replay_both_images = bool(re.search(r"\[\s*&intent\s*\.\s*previous\s*,\s*&intent\s*\.\s*proposed\s*\]", rec))

# flush()/close() poison on a failed flush_inner
fl = fn_body(src, "flush")
flush_poisons = bool(re.search(r"if\s+rt\s*\.\s*is_err\s*\(\s*\)\s*\{\s*[^}]*self\s*\.\s*poison\s*\(", fl))
cl = fn_body(src, "close")
close_poisons = bool(re.search(r"Err\s*\(\s*err\s*\)\s*=>\s*\{[^}]*self\s*\.\s*poison\s*\(", cl))


def b(x):
    return "true" if x else "false"


def lst(ctor_ns, xs):
    return "[" + ", ".join(f".{x}" for x in xs) + "]"


text = f"""/- GENERATED by bin/translate/c01_collection_order.py from rs/anda_db/src/collection.rs — do not edit. -/
namespace AndaVerif.Gen.CollectionOrder

inductive FlushStep | indexes | metaPut | idsPut | checkpoint | retire
deriving DecidableEq, Repr

inductive AddStep | alloc | watermark | index | docCreate | cleanupDelete | idsAdd | version
deriving DecidableEq, Repr

inductive UpdStep | read | intent | index | docPut | version
deriving DecidableEq, Repr

inductive RemStep | read | intent | index | docDelete | idsRemove | version
deriving DecidableEq, Repr

inductive OpenStep | loadMeta | loadIds | loadWatermark | loadIndexes | callback | replay | repair
deriving DecidableEq, Repr

/-- effect markers of `flush_inner` by first occurrence: the program the model's flush interprets -/
def flushOrder : List FlushStep := {lst("FlushStep", flush_order)}
/-- `add_impl` -/
def addOrder : List AddStep := {lst("AddStep", add_order)}
/-- `update_impl` -/
def updateOrder : List UpdStep := {lst("UpdStep", upd_order)}
/-- `remove_impl` -/
def removeOrder : List RemStep := {lst("RemStep", rem_order)}
/-- `Collection::open` -/
def openOrder : List OpenStep := {lst("OpenStep", open_order)}

/-- `Collection::ALLOCATION_WATERMARK_STRIDE` -/
def allocationWatermarkStride : Nat := {stride}
/-- the watermark target is `max_document_id.max(id) + STRIDE`, guarded by `id <= durable_alloc_watermark` -/
def watermarkTargetIsMaxPlusStride : Bool := {b(wm_target_ok and wm_guard_ok)}
/-- the in-memory watermark is published only after the PUT returned -/
def watermarkPutBeforePublish : Bool := {b(wm_put_before_publish)}
/-- `open` starts the in-memory watermark at `max(alloc_watermark, metadata.max_document_id)` -/
def openWatermarkMaxWithMeta : Bool := {b(open_wm_max_meta)}

/-- `store_ids` and the storage checkpoint run only inside `if let Some(check_point) = stored_check_point` -/
def idsAndCheckpointGuardedByMeta : Bool := {b(ids_cp_guarded)}
def retireGuardedByPending : Bool := {b(retire_guarded)}
def indexesGuardedByPending : Bool := {b(index_guarded)}
/-- `store_metadata` returns the snapshot's `max_document_id` as the checkpoint -/
def checkpointIsSnapshotMax : Bool := {b(checkpoint_is_snapshot_max)}
/-- `store_metadata_unclaimed` (save_extension) never touches `last_saved_version` -/
def unclaimedMetaKeepsVersion : Bool := {b(unclaimed_keeps_version)}

/-- the reopen repair scan iterates `(check_point + 1)..=scan_max` with `check_point` from the storage stats -/
def scanStartsAfterCheckpoint : Bool := {b(scan_from_cp and cp_from_storage)}
/-- `scan_max` mentions `max_document_id` -/
def scanUsesMaxId : Bool := {b(scan_uses_max)}
/-- `scan_max` is `….max(durable_alloc_watermark)` -/
def scanUsesWatermark : Bool := {b(scan_uses_wm)}
/-- intent replay removes both recorded images of every intent before any re-insert -/
def replayRemovesBothImagesFirst : Bool := {b(replay_removes_first and replay_both_images)}

/-- failure branches that poison the handle -/
def updatePoisonsOnPutError : Bool := {b(upd_poisons)}
def removePoisonsOnDeleteError : Bool := {b(rem_poisons)}
def addPoisonsOnCleanupError : Bool := {b(add_cleanup_poisons)}
def addExistsSkipsCleanup : Bool := {b(add_exists_skips_cleanup)}
def flushPoisonsOnError : Bool := {b(flush_poisons)}
def closePoisonsOnError : Bool := {b(close_poisons)}
/-- update records (before, after), remove records (before, none) -/
def updateIntentHasBothImages : Bool := {b(upd_intent_both)}
def removeIntentHasPrevOnly : Bool := {b(rem_intent_prev_only)}

theorem gen_flush_order : flushOrder = [.indexes, .metaPut, .idsPut, .checkpoint, .retire] := by decide
theorem gen_add_order : addOrder = [.alloc, .watermark, .index, .docCreate, .cleanupDelete, .idsAdd, .version] := by decide
theorem gen_update_order : updateOrder = [.read, .intent, .index, .docPut, .version] := by decide
theorem gen_remove_order : removeOrder = [.read, .intent, .index, .docDelete, .idsRemove, .version] := by decide
theorem gen_open_order : openOrder = [.loadMeta, .loadIds, .loadWatermark, .loadIndexes, .callback, .replay, .repair] := by decide
theorem gen_stride_pos : 0 < allocationWatermarkStride := by decide
theorem gen_watermark : (watermarkTargetIsMaxPlusStride && watermarkPutBeforePublish && openWatermarkMaxWithMeta) = true := by decide
theorem gen_flush_guards : (idsAndCheckpointGuardedByMeta && retireGuardedByPending && indexesGuardedByPending && checkpointIsSnapshotMax && unclaimedMetaKeepsVersion) = true := by decide
theorem gen_scan : (scanStartsAfterCheckpoint && scanUsesMaxId && scanUsesWatermark && replayRemovesBothImagesFirst) = true := by decide
theorem gen_poison : (updatePoisonsOnPutError && removePoisonsOnDeleteError && addPoisonsOnCleanupError && addExistsSkipsCleanup && flushPoisonsOnError && closePoisonsOnError) = true := by decide
theorem gen_intent_images : (updateIntentHasBothImages && removeIntentHasPrevOnly) = true := by decide

end AndaVerif.Gen.CollectionOrder
"""
write_gen(gen, "CollectionOrder.lean", text)
