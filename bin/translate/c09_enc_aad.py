#!/usr/bin/env python3
"""c09_enc_aad.py <repo_root> <gen_dir>  ->  <gen_dir>/EncAad.lean

Regenerates, from rs/anda_object_store/src/encryption.rs, the data-like parts of the C09 model:

  * the push order of `metadata_auth_aad` (which field, through which encoder) -> `metaAadLayout`
  * the layout of `chunk_aad`                                                  -> `chunkAadLayout`
  * the bodies of the length-prefixed encoders `push_bytes`, `push_opt_str`, `push_opt_u64`,
    `push_opt_u8` as small shape terms                                         -> `push*Shape`
  * the shape of `derive_gcm_nonce` (salt kept, counter window, little endian, wrapping add)
  * the field list of `struct Metadata` with a type class per field            -> `metadataFields`
  * the downgrade guard of `verify_metadata` (fields whose presence without a seal is rejected)
  * `CHUNK_AAD_LEGACY`, `CHUNK_AAD_BOUND`, `DEFAULT_CHUNK_SIZE`

and ends the file with kernel-checked facts `gen_*` that state the values the proofs were written
against.  Works on a comment-stripped copy, keys on call names and nesting (not on layout); an
unrecognised statement inside one of the translated functions is an error, never skipped.
"""
import os
import re
import sys


def die(msg):
    print(f"c09_enc_aad: {msg}", file=sys.stderr)
    sys.exit(1)


def strip_comments(src):
    out, i, n = [], 0, len(src)
    while i < n:
        c = src[i]
        if src.startswith("//", i):
            while i < n and src[i] != "\n":
                i += 1
        elif src.startswith("/*", i):
            depth = 1
            i += 2
            while i < n and depth:
                if src.startswith("/*", i):
                    depth += 1
                    i += 2
                elif src.startswith("*/", i):
                    depth -= 1
                    i += 2
                else:
                    i += 1
        elif c == '"':
            j = i + 1
            while j < n and src[j] != '"':
                j += 2 if src[j] == "\\" else 1
            out.append(src[i:j + 1])
            i = j + 1
        elif c == "'" and i + 2 < n and (src[i + 2] == "'" or (src[i + 1] == "\\" and "'" in src[i + 2:i + 6])):
            j = src.index("'", i + 2 if src[i + 1] != "\\" else i + 3)
            out.append(src[i:j + 1])
            i = j + 1
        else:
            out.append(c)
            i += 1
    return "".join(out)


def match_brace(src, open_idx):
    assert src[open_idx] == "{"
    depth, i, n = 0, open_idx, len(src)
    while i < n:
        c = src[i]
        if c == '"':
            j = i + 1
            while j < n and src[j] != '"':
                j += 2 if src[j] == "\\" else 1
            i = j + 1
            continue
        if c == "{":
            depth += 1
        elif c == "}":
            depth -= 1
            if depth == 0:
                return i
        i += 1
    die("unbalanced braces")


def fn_body(src, name, in_tests=False):
    """Body text of the unique non-test `fn name(...)`."""
    cut = src.find("#[cfg(test)]")
    hay = src if cut < 0 else src[:cut]
    ms = list(re.finditer(r"\bfn\s+" + re.escape(name) + r"\s*(?:<[^>]*>)?\s*\(", hay))
    # free functions only: methods of the same name (`&self`) are thin forwarders
    ms = [m for m in ms if not re.match(r"\s*&?\s*(mut\s+)?self\b", hay[m.end():m.end() + 20])]
    if len(ms) != 1:
        die(f"expected exactly one `fn {name}` outside the tests, found {len(ms)}")
    ob = hay.index("{", ms[0].end())
    cb = match_brace(hay, ob)
    return hay[ob + 1:cb], hay[ms[0].start():ob]


def split_statements(body):
    """Top-level statements of a block: `...;` or `kw ... { ... }` (with optional else chains)."""
    stmts, i, n = [], 0, len(body)
    cur = []
    depth_paren = 0
    while i < n:
        c = body[i]
        if c == '"':
            j = i + 1
            while j < n and body[j] != '"':
                j += 2 if body[j] == "\\" else 1
            cur.append(body[i:j + 1])
            i = j + 1
            continue
        if c in "([":
            depth_paren += 1
        elif c in ")]":
            depth_paren -= 1
        if c == "{" and depth_paren == 0:
            j = match_brace(body, i)
            cur.append(body[i:j + 1])
            i = j + 1
            head = "".join(cur).strip()
            # a block statement ends here unless it is an expression continued by `;` / `.`/ else
            rest = body[i:].lstrip()
            if rest.startswith("else"):
                continue
            if re.match(r"^(if|for|while|match|loop)\b", head) and not rest.startswith((".", ";", "?")):
                stmts.append(head)
                cur = []
            continue
        if c == ";" and depth_paren == 0:
            s = "".join(cur).strip()
            if s:
                stmts.append(s)
            cur = []
            i += 1
            continue
        cur.append(c)
        i += 1
    tail = "".join(cur).strip()
    if tail:
        stmts.append(tail)
    return stmts


def norm(s):
    return re.sub(r"\s+", " ", s).strip()


def squash(s):
    return re.sub(r"\s+", "", s)


def lit_bytes(s):
    """b"..." -> list of ints (only plain ASCII without escapes is expected)."""
    m = re.fullmatch(r'b"([^"\\]*)"', s)
    if not m:
        die(f"unsupported byte-string literal {s}")
    return list(m.group(1).encode("ascii"))


CAMEL = {
    "location": "location", "size": "size", "e_tag": "eTag", "original_tag": "originalTag",
    "original_version": "originalVersion", "aes_nonce": "aesNonce", "aes_tags": "aesTags",
    "chunk_size": "chunkSize", "chunk_aad_version": "chunkAadVersion", "auth_nonce": "authNonce",
    "auth_tag": "authTag", "generation": "generation", "committed_at_ms": "committedAtMs",
}


def field(name):
    if name not in CAMEL:
        die(f"metadata field `{name}` is unknown to the C09 model (new field? extend Model/Enc.lean and this translator)")
    return "." + CAMEL[name]


def lean_nats(bs):
    return "[" + ", ".join(str(b) for b in bs) + "]"


def blank_strings(text):
    """Same length, string-literal contents replaced by spaces (so `?`, braces, names inside messages are invisible)."""
    out, i, n = list(text), 0, len(text)
    while i < n:
        if text[i] == '"':
            j = i + 1
            while j < n and text[j] != '"':
                if text[j] == "\\":
                    out[j] = " "
                    j += 1
                if j < n:
                    out[j] = " " if text[j] != "\n" else "\n"
                j += 1
            i = j + 1
        else:
            i += 1
    return "".join(out)


def match_close(text, open_idx):
    """Index of the bracket closing the one at open_idx ((), [] or {}), strings skipped."""
    pairs = {"(": ")", "[": "]", "{": "}"}
    depth, i, n = 0, open_idx, len(text)
    while i < n:
        c = text[i]
        if c == '"':
            j = i + 1
            while j < n and text[j] != '"':
                j += 2 if text[j] == "\\" else 1
            i = j + 1
            continue
        if c in pairs:
            depth += 1
        elif c in pairs.values():
            depth -= 1
            if depth == 0:
                return i
        i += 1
    die("unbalanced brackets")


def split_args(text):
    """Top-level comma separated arguments."""
    args, depth, cur, i = [], 0, [], 0
    while i < len(text):
        c = text[i]
        if c == '"':
            j = i + 1
            while j < len(text) and text[j] != '"':
                j += 2 if text[j] == "\\" else 1
            cur.append(text[i:j + 1])
            i = j + 1
            continue
        if c in "([{<" and not (c == "<" and depth == 0 and False):
            depth += c in "([{"
        elif c in ")]}":
            depth -= 1
        if c == "," and depth == 0:
            args.append("".join(cur).strip())
            cur = []
        else:
            cur.append(c)
        i += 1
    if "".join(cur).strip():
        args.append("".join(cur).strip())
    return args


def params_of(sig):
    """[(name, squashed type)] of a fn signature text `fn name(...)`."""
    ob = sig.index("(")
    cb = match_close(sig, ob)
    out = []
    for a in split_args(sig[ob + 1:cb]):
        m = re.fullmatch(r"(?:mut\s+)?(\w+)\s*:\s*(.+)", a, re.S)
        if m:
            out.append((m.group(1), squash(m.group(2))))
    return out


def private_fns(src):
    """name -> (params, body) of every free, non-pub fn outside the tests (candidates for inlining)."""
    cut = src.find("#[cfg(test)]")
    hay = src if cut < 0 else src[:cut]
    out = {}
    for m in re.finditer(r"(?m)^(?P<ind>[ \t]*)(?P<vis>pub(?:\([^)]*\))?\s+)?(?:async\s+)?fn\s+(?P<name>\w+)\s*(?:<[^>{(]*>)?\s*\(", hay):
        if m.group("vis") or m.group("ind"):
            continue  # only top-level private helpers
        ob_par = hay.index("(", m.end() - 1)
        cb_par = match_close(hay, ob_par)
        ob = hay.index("{", cb_par)
        cb = match_close(hay, ob)
        out[m.group("name")] = (params_of(hay[m.start():ob]), hay[ob + 1:cb])
    return out


def inline_private(body, fns, keep, depth=0, stack=()):
    """Textually inlines calls of top-level private helpers (except `keep`), substituting parameters by the
    argument expressions (`&mut x` / `&x` arguments are auto-dereferenced before a `.`), so that the same
    effects are seen in the same order whether or not a block was extracted into a helper."""
    if depth > 4:
        return body
    out, i = [], 0
    pat = re.compile(r"(?<![\w.:])([A-Za-z_]\w*)\s*\(")
    while True:
        m = pat.search(body, i)
        if not m:
            out.append(body[i:])
            break
        name = m.group(1)
        before = body[max(0, m.start() - 4):m.start()]
        if name not in fns or name in keep or name in stack or before.rstrip().endswith("fn"):
            out.append(body[i:m.end()])
            i = m.end()
            continue
        cb = match_close(body, m.end() - 1)
        args = split_args(body[m.end():cb])
        params, fbody = fns[name]
        if len(args) != len(params):
            out.append(body[i:m.end()])
            i = m.end()
            continue
        # avoid capturing: rename the helper's own parameters first
        sub = fbody
        for k, (pn, _) in enumerate(params):
            sub = re.sub(r"\b" + re.escape(pn) + r"\b", f"\x00P{k}\x00", sub)
        for k, arg in enumerate(args):
            base = re.sub(r"^&\s*(mut\s+)?", "", arg).strip()
            simple = re.fullmatch(r"[\w.]+", base) is not None
            sub = re.sub("\x00P%d\x00(?=\\s*\\.)" % k, base if simple else f"({arg})", sub)
            sub = sub.replace(f"\x00P{k}\x00", arg if re.fullmatch(r"&?\s*(mut\s+)?[\w.()]+", arg) else f"({arg})")
        sub = inline_private(sub, fns, keep, depth + 1, stack + (name,))
        out.append(body[i:m.start()] + "{ " + sub + " }")
        i = cb + 1
    return "".join(out)


def canon(text, mapping):
    """Renames locals to the canonical names the patterns below use (whole identifiers only)."""
    tmp = {}
    for k, (old, new) in enumerate(mapping.items()):
        if old != new:
            tmp[f"\x01{k}\x01"] = new
            text = re.sub(r"\b" + re.escape(old) + r"\b", f"\x01{k}\x01", text)
    for t, new in tmp.items():
        if re.search(r"\b" + re.escape(new) + r"\b", text):
            die(f"cannot canonicalise a local to `{new}`: `{new}` is also in use for something else")
        text = text.replace(t, new)
    return text


def param_by_type(sig, ty, what):
    ps = [n for n, t in params_of(sig) if t == squash(ty)]
    if len(ps) != 1:
        die(f"{what}: expected exactly one parameter of type {ty}, found {ps}")
    return ps[0]


def buffer_name(body, what):
    m = re.search(r"let\s+mut\s+(\w+)\s*(?::\s*Vec<u8>)?\s*=\s*Vec::(?:new\(\)|with_capacity\([^)]*\))", body)
    if not m:
        die(f"{what}: no `let mut <buf> = Vec::…` buffer")
    return m.group(1)


SCOPE_PATTERNS = [
    # (kind, regex with groups var / field, what closes it)
    ("each", r"for\s+(?P<var>\w+)\s+in\s+&?\s*meta\.(?P<f>\w+)\s*(?:\.iter\(\))?\s*\{", "{"),
    ("each", r"meta\s*\.\s*(?P<f>\w+)\s*\.iter\(\)\s*\.for_each\(\s*(?:move\s+)?\|\s*(?P<var>\w+)\s*\|", "("),
    ("some", r"if\s+let\s+Some\(\s*(?:ref\s+)?(?P<var>\w+)\s*\)\s*=\s*&?\s*meta\.(?P<f>\w+)\s*(?:\.as_ref\(\)|\.as_deref\(\))?\s*\{", "{"),
]


def aad_events(body, buf, resolve_direct, what):
    """Every write to `buf` in textual order: [(pos, scope or None, kind, detail)].
    Scopes: iteration over a `meta.<f>` collection, or `Some(v)` of an optional `meta.<f>`."""
    scopes = []  # (start, end, kind, var, field)
    for kind, rx, closer in SCOPE_PATTERNS:
        for m in re.finditer(rx, body):
            if closer == "{":
                end = match_close(body, m.end() - 1)
            else:
                ob = body.index("(", body.index("for_each", m.start()))
                end = match_close(body, ob)
            scopes.append((m.start(), end, kind, m.group("var"), m.group("f")))
    # match &meta.f { Some(v) => …, None => … }
    for m in re.finditer(r"match\s+&?\s*meta\.(?P<f>\w+)\s*(?:\.as_ref\(\)|\.as_deref\(\))?\s*\{", body):
        end = match_close(body, m.end() - 1)
        arm = re.search(r"Some\(\s*(?:ref\s+)?(?P<var>\w+)\s*\)\s*=>\s*", body[m.end():end])
        if arm:
            a0 = m.end() + arm.end()
            if body[a0] == "{":
                a1 = match_close(body, a0)
            else:
                a1 = a0
                depth = 0
                while a1 < end and not (body[a1] == "," and depth == 0):
                    depth += body[a1] in "([{"
                    depth -= body[a1] in ")]}"
                    a1 += 1
            scopes.append((a0, a1, "some", arm.group("var"), m.group("f")))

    def scope_at(pos):
        inner = [sc for sc in scopes if sc[0] <= pos <= sc[1]]
        if len(inner) > 1:
            die(f"{what}: nested optional/iteration scopes are not understood")
        return inner[0] if inner else None

    def resolve(expr, sc):
        e = squash(expr)
        m = re.search(r"\bmeta\.(\w+)", e)
        if m:
            return ("field", m.group(1), e)
        if sc and re.match(r"^[&*(]*" + re.escape(sc[3]) + r"\b", e):
            return ("bound", sc[4], e)
        r = resolve_direct(e)
        if r:
            return ("field", r, e)
        die(f"{what}: cannot tell what `{norm(expr)[:80]}` is")

    events = []
    b = re.escape(buf)
    for m in re.finditer(r"\b(push_bytes|push_opt_str|push_opt_u64|push_opt_u8)\s*\(\s*&mut\s+" + b + r"\s*,", body):
        cb = match_close(body, body.index("(", m.start()))
        arg = body[m.end():cb]
        sc = scope_at(m.start())
        events.append((m.start(), sc, m.group(1), resolve(arg, sc)))
    for m in re.finditer(b + r"\s*\.\s*extend_from_slice\s*\(", body):
        cb = match_close(body, m.end() - 1)
        arg = body[m.end():cb].strip()
        sc = scope_at(m.start())
        if re.fullmatch(r'b"[^"]*"', arg):
            events.append((m.start(), sc, "lit", lit_bytes(arg)))
            continue
        e = squash(arg)
        mm = re.fullmatch(r"&\((.+)\.len\(\)asu64\)\.to_le_bytes\(\)", e)
        if mm:
            events.append((m.start(), sc, "lenLe64", resolve(mm.group(1), sc)))
            continue
        mm = re.fullmatch(r"&(.+)\.to_le_bytes\(\)", e)
        if mm:
            events.append((m.start(), sc, "le64", resolve(mm.group(1), sc)))
            continue
        die(f"{what}: write to the buffer not understood: {norm(body[m.start():cb + 1])[:120]}")
    events.sort(key=lambda ev: ev[0])
    # every mention of the buffer must be accounted for: declaration, the writes above, the returned value
    mentions = len(re.findall(r"\b" + b + r"\b", body))
    if mentions != len(events) + 2:
        die(f"{what}: the buffer `{buf}` is used {mentions} times but only {len(events)} writes (+ declaration + result) are understood")
    if not re.search(r"(?:return\s+)?\b" + b + r"\s*;?\s*$", body.strip()):
        die(f"{what}: the buffer is not the result")
    return events


def translate_meta_aad(body, sig, fns):
    loc = param_by_type(sig, "&Path", "metadata_auth_aad")
    meta = param_by_type(sig, "&Metadata", "metadata_auth_aad")
    body = inline_private(body, fns, keep={"push_bytes", "push_opt_str", "push_opt_u64", "push_opt_u8"})
    buf = buffer_name(body, "metadata_auth_aad")
    body = canon(body, {buf: "aad", loc: "location", meta: "meta"})

    def direct(e):
        return "location" if re.search(r"\blocation\b", e) else None

    events = aad_events(body, "aad", direct, "metadata_auth_aad")
    items, k = [], 0
    while k < len(events):
        pos, sc, kind, det = events[k]
        if sc is None:
            if kind == "lit":
                items.append(f".lit {lean_nats(det)}")
            elif kind == "push_bytes":
                items.append(f".pushBytes {field(det[1])}")
            elif kind == "push_opt_str":
                items.append(f".optStr {field(det[1])}")
            elif kind == "push_opt_u64":
                items.append(f".optU64 {field(det[1])}")
            elif kind == "push_opt_u8":
                items.append(f".optU8 {field(det[1])}")
            elif kind == "le64":
                items.append(f".le64 {field(det[1])}")
            elif kind == "lenLe64":
                items.append(f".lenLe64 {field(det[1])}")
            k += 1
            continue
        group = [ev for ev in events if ev[1] is sc]
        k += len(group)
        shape = [(g[2], g[3][0] if g[2] != "lit" else None) for g in group]
        if sc[2] == "each":
            if shape != [("push_bytes", "bound")]:
                die(f"metadata_auth_aad: loop over meta.{sc[4]} does something else than push_bytes(element)")
            items.append(f".eachPushBytes {field(sc[4])}")
        else:
            if shape == [("lit", None), ("push_bytes", "bound")]:
                items.append(f".ifSomeBytes {field(sc[4])} {lean_nats(group[0][3])}")
            elif shape == [("lit", None), ("le64", "bound")]:
                items.append(f".ifSomeU64 {field(sc[4])} {lean_nats(group[0][3])}")
            else:
                die(f"metadata_auth_aad: optional block on meta.{sc[4]} not understood: {shape}")
    if not items:
        die("metadata_auth_aad: empty layout")
    return items


def translate_chunk_aad(body, sig, fns):
    params = [n for n, t in params_of(sig) if t == "u64"]
    if len(params) != 2 or len(params_of(sig)) != 2:
        die(f"chunk_aad: expected two u64 parameters (chunk size, chunk index), found {params_of(sig)}")
    body = inline_private(body, fns, keep=set())
    buf = buffer_name(body, "chunk_aad")
    body = canon(body, {buf: "aad", params[0]: "chunk_size", params[1]: "chunk_index"})

    def direct(e):
        m = re.search(r"\b(chunk_size|chunk_index)\b", e)
        return m.group(1) if m else None

    items = []
    for pos, sc, kind, det in aad_events(body, "aad", direct, "chunk_aad"):
        if sc is not None:
            die("chunk_aad: conditional / repeated write")
        if kind == "lit":
            items.append(f".lit {lean_nats(det)}")
        elif kind == "le64" and det[1] in ("chunk_size", "chunk_index"):
            items.append(".le64ChunkSize" if det[1] == "chunk_size" else ".le64ChunkIndex")
        else:
            die(f"chunk_aad: write not understood: {kind} {det}")
    return items


def translate_push_helper(name, body, sig):
    """Returns a Lean `Shape` term list (or a pair for the Option helpers)."""
    ps = params_of(sig)
    if len(ps) != 2 or ps[0][1] != "&mutVec<u8>":
        die(f"{name}: signature changed: {ps}")
    body = canon(body, {ps[0][0]: "out", ps[1][0]: "value"})

    def seq(text, var):
        out = []
        for st in split_statements(text):
            s = squash(st)
            if re.fullmatch(r"out\.extend_from_slice\(&\(%s\.len\(\)asu64\)\.to_le_bytes\(\)\)" % var, s):
                out.append(".lenLe64")
            elif re.fullmatch(r"out\.extend_from_slice\(%s\)" % var, s):
                out.append(".raw")
            elif re.fullmatch(r"out\.extend_from_slice\(&%s\.to_le_bytes\(\)\)" % var, s):
                out.append(".valLe64")
            elif re.fullmatch(r"out\.push\(\*?%s\)" % var, s):
                out.append(".valByte")
            elif (m := re.fullmatch(r"out\.push\((\d+)(?:u8)?\)", s)):
                out.append(f".byte {m.group(1)}")
            elif re.fullmatch(r"push_bytes\(out,%s\.as_bytes\(\)\)" % var, s):
                out.append(".pushBytes")
            else:
                die(f"{name}: statement not understood: {norm(st)[:120]}")
        return out

    if name == "push_bytes":
        if ps[1][1] != "&[u8]":
            die("push_bytes: signature changed")
        return "[" + ", ".join(seq(body, "value")) + "]"
    text = body.strip()
    some_seq = none_seq = None
    m = re.match(r"match\s+value\s*\{", text)
    if m:
        end = match_close(text, m.end() - 1)
        if text[end + 1:].strip(" ;\n"):
            die(f"{name}: statements after the `match value`")
        inner = text[m.end():end]
        for arm in re.finditer(r"(Some\s*\(\s*(\w+)\s*\)|None)\s*=>\s*", inner):
            a0 = arm.end()
            if inner[a0] == "{":
                a1 = match_close(inner, a0)
                arm_body = inner[a0 + 1:a1]
            else:
                a1 = a0
                depth = 0
                while a1 < len(inner) and not (inner[a1] == "," and depth == 0):
                    depth += inner[a1] in "([{"
                    depth -= inner[a1] in ")]}"
                    a1 += 1
                arm_body = inner[a0:a1] + ";"
            if arm.group(1).startswith("Some"):
                some_seq = seq(arm_body, arm.group(2))
            else:
                none_seq = seq(arm_body, "value")
    else:
        m = re.match(r"if\s+let\s+Some\s*\(\s*(\w+)\s*\)\s*=\s*value\s*\{", text)
        if m:
            end = match_close(text, m.end() - 1)
            some_seq = seq(text[m.end():end], m.group(1))
            rest = text[end + 1:].strip()
            me = re.match(r"else\s*\{", rest)
            if not me:
                die(f"{name}: no else branch")
            e1 = match_close(rest, me.end() - 1)
            none_seq = seq(rest[me.end():e1], "value")
    if some_seq is None or none_seq is None:
        die(f"{name}: expected `match value {{ Some(..) => .., None => .. }}` (or if-let/else)")
    return "⟨[" + ", ".join(some_seq) + "], [" + ", ".join(none_seq) + "]⟩"


def translate_nonce(body, sig):
    ps = params_of(sig)
    if [t for _, t in ps] != ["&[u8;12]", "u64"] or "->[u8;12]" not in squash(sig):
        die("derive_gcm_nonce: signature changed")
    body = canon(body, {ps[0][0]: "base", ps[1][0]: "idx"})
    s = squash(body)
    m0 = re.search(r"letmut(\w+)(?::\[u8;12\])?=\*base;", s)
    if not m0:
        die("derive_gcm_nonce: the nonce is not a copy of the base")
    n = m0.group(1)
    # the counter value: from_le_bytes of a window of the nonce (through a temporary array or directly)
    m3 = re.search(r"let(\w+)(?::u64)?=u64::from_(le|be)_bytes\((.+?)\)\.(\w+)\(idx\);", s)
    if not m3:
        die("derive_gcm_nonce: body not understood (no `u64::from_*_bytes(..).<op>(idx)`)")
    cvar, endian, src_expr, op = m3.group(1), m3.group(2), m3.group(3), m3.group(4)
    mw = re.fullmatch(re.escape(n) + r"\[(\d+)\.\.(\d+)\]\.try_into\(\)\.(?:unwrap|expect)\(.*\)", src_expr)
    if mw:
        window = (mw.group(1), mw.group(2))
    else:
        mt = re.search(re.escape(src_expr) + r"\.copy_from_slice\(&" + re.escape(n) + r"\[(\d+)\.\.(\d+)\]\)", s)
        if not (re.fullmatch(r"\w+", src_expr) and mt):
            die("derive_gcm_nonce: body not understood (where does the counter come from?)")
        window = (mt.group(1), mt.group(2))
    m2 = re.search(re.escape(n) + r"\[(\d+)\.\.(\d+)\]\.copy_from_slice\(&" + re.escape(cvar) + r"\.to_(le|be)_bytes\(\)\)", s)
    if not m2:
        die("derive_gcm_nonce: body not understood (counter is not written back)")
    if (m2.group(1), m2.group(2)) != window:
        die("derive_gcm_nonce: counter is read from and written to different windows")
    if m2.group(3) != endian:
        die("derive_gcm_nonce: counter is read and written with different endianness")
    if not re.search(r"(?:return)?" + re.escape(n) + r";?$", s):
        die("derive_gcm_nonce: the nonce is not the result")
    # nothing else may write the nonce
    writes = len(re.findall(re.escape(n) + r"\[[^\]]*\](?:\.copy_from_slice|=[^=])", s))
    if writes != 1:
        die(f"derive_gcm_nonce: {writes} writes to the nonce, expected one")
    return int(window[0]), int(window[1]), endian, op


TYPE_CLASS = [
    (r"u64", ".u64"), (r"Option<u64>", ".optU64"), (r"Option<u8>", ".optU8"), (r"Option<String>", ".optStr"),
    (r"ByteArray<12>", ".bytes 12"), (r"Vec<ByteArray<16>>", ".listBytes 16"), (r"Option<ByteArray<12>>", ".optBytes 12"),
    (r"Option<ByteArray<16>>", ".optBytes 16"),
]


def translate_struct(src):
    """Fields of `struct Metadata` in declaration order: (name, type class, serde key, omitted when None)."""
    ms = list(re.finditer(r"\bpub\s+struct\s+Metadata\s*\{", src))
    if len(ms) != 1:
        die(f"expected exactly one `pub struct Metadata`, found {len(ms)}")
    head = src[max(0, ms[0].start() - 400):ms[0].start()]
    derive = re.findall(r"#\[derive\(([^)]*)\)\]", head)
    if not derive or "Serialize" not in derive[-1] or "Deserialize" not in derive[-1]:
        die("struct Metadata no longer derives Serialize/Deserialize")
    if re.search(r"#\[serde\([^\]]*(rename_all|deny_unknown_fields|transparent|tag)\b", head[head.rfind("#[derive"):]):
        die("struct Metadata has a container-level serde attribute the model does not know")
    ob = src.index("{", ms[0].start())
    cb = match_brace(src, ob)
    body = src[ob + 1:cb]
    fields = []
    # split on top-level commas, attributes stay with the field that follows them
    parts, depth, cur = [], 0, []
    for ch in body:
        if ch in "([{<":
            depth += 1
        elif ch in ")]}>":
            depth -= 1
        if ch == "," and depth == 0:
            parts.append("".join(cur))
            cur = []
        else:
            cur.append(ch)
    parts.append("".join(cur))
    for part in parts:
        attrs = " ".join(re.findall(r"#\[serde\(([^\]]*)\)\]", part))
        part = re.sub(r"#\[[^\]]*\]", "", part).strip()
        if not part:
            continue
        m = re.fullmatch(r"(?:pub(?:\([^)]*\))?\s+)?(\w+)\s*:\s*(.+)", part, re.S)
        if not m:
            die(f"struct Metadata: field not understood: {norm(part)[:80]}")
        ty = squash(m.group(2))
        cls = next((c for t, c in TYPE_CLASS if squash(t) == ty), None)
        if cls is None:
            die(f"struct Metadata: field `{m.group(1)}` has a type unknown to the model: {ty}")
        rn = re.search(r'rename\s*=\s*"([^"]*)"', attrs)
        key = rn.group(1) if rn else m.group(1)
        skip = re.search(r'skip_serializing_if\s*=\s*"([^"]*)"', attrs)
        if skip and skip.group(1) != "Option::is_none":
            die(f"struct Metadata: field `{m.group(1)}`: unknown skip_serializing_if {skip.group(1)}")
        if re.search(r"\b(with|serialize_with|flatten|skip|skip_serializing)\b\s*(=|,|$)", attrs):
            die(f"struct Metadata: field `{m.group(1)}` has a serde attribute the model does not know: {attrs}")
        fields.append((m.group(1), cls, key, bool(skip)))
    return fields


def arm_body(text, start, end):
    """(body text, end index) of a match arm whose `=>` ends at `start` (inside text[:end])."""
    a0 = start
    while a0 < end and text[a0].isspace():
        a0 += 1
    if text[a0] == "{":
        a1 = match_close(text, a0)
        return text[a0 + 1:a1], a1
    a1, depth = a0, 0
    while a1 < end and not (text[a1] == "," and depth == 0):
        depth += text[a1] in "([{"
        depth -= text[a1] in ")]}"
        a1 += 1
    return text[a0:a1], a1


def reject_if(block, what):
    """First `if` of `block`: (position, fields tested, True) when it rejects (`Err`) if any of the optional
    metadata fields is present — spelled `a.is_some() || b.is_some() { Err }` or inverted
    `a.is_none() && b.is_none() { … } else { Err }`."""
    m = re.search(r"\bif\s+(?!let\b)", block)
    if not m:
        die(f"{what}: no guard `if`")
    ob = m.end()
    depth = 0
    while ob < len(block) and not (block[ob] == "{" and depth == 0):
        depth += block[ob] in "(["
        depth -= block[ob] in ")]"
        ob += 1
    cond = squash(block[m.end():ob])
    cb = match_close(block, ob)
    then_block = block[ob + 1:cb]
    rest = block[cb + 1:].lstrip()
    else_block = None
    if rest.startswith("else"):
        eb = rest.index("{")
        else_block = rest[eb + 1:match_close(rest, eb)]
    return m.start(), cond, then_block, else_block


def translate_guard(body, sig, fns):
    """verify_metadata: arm structure, the stripped-field guard, order of the legacy arm, the authenticated tail.
    Private helpers are inlined first, so a split into several functions reads the same."""
    cipher = param_by_type(sig, "&Aes256Gcm", "verify_metadata")
    loc = param_by_type(sig, "&Path", "verify_metadata")
    meta = param_by_type(sig, "&Metadata", "verify_metadata")
    strict = param_by_type(sig, "bool", "verify_metadata")
    body = inline_private(body, fns, keep={"metadata_auth_aad", "chunk_aad_version"})
    body = canon(body, {cipher: "cipher", loc: "location", meta: "meta", strict: "strict"})
    text = blank_strings(body)
    mm = None
    for m in re.finditer(r"\bmatch\s*\(", text):
        cp = match_close(text, m.end() - 1)
        tup = squash(text[m.end():cp])
        if re.fullmatch(r"&?meta\.auth_nonce(\.as_ref\(\))?,&?meta\.auth_tag(\.as_ref\(\))?", tup):
            mm = (m.start(), cp)
            break
    if not mm:
        die("verify_metadata: no `match (meta.auth_nonce…, meta.auth_tag…)`")
    ob = text.index("{", mm[1])
    cb = match_close(text, ob)
    bind = re.search(r"let\s*\(\s*(\w+)\s*,\s*(\w+)\s*\)\s*=\s*$", text[:mm[0]])
    if not bind:
        die("verify_metadata: the match does not bind `(nonce, tag)`")
    arms = {}
    for a in re.finditer(r"\(\s*(Some\s*\(\s*\w+\s*\)|None)\s*,\s*(Some\s*\(\s*\w+\s*\)|None)\s*\)\s*=>", text[ob:cb]):
        key = ("Some" if a.group(1).startswith("Some") else "None", "Some" if a.group(2).startswith("Some") else "None")
        if key in arms:
            die(f"verify_metadata: arm {key} twice")
        arms[key] = arm_body(text, ob + a.end(), cb)[0]
    if set(arms) != {("Some", "Some"), ("None", "None"), ("None", "Some"), ("Some", "None")}:
        die(f"verify_metadata: expected the four (nonce, tag) arms, found {sorted(arms)}")
    if re.search(r"\b(return|Err|Ok)\b", arms[("Some", "Some")]):
        die("verify_metadata: the (Some, Some) arm no longer just binds nonce and tag")
    for key in (("None", "Some"), ("Some", "None")):
        if "Err(" not in arms[key] or "Ok(" in arms[key]:
            die(f"verify_metadata: arm {key} no longer rejects")
    # ---- the unsealed arm -------------------------------------------------------------------------
    A = arms[("None", "None")]
    gpos, cond, then_b, else_b = reject_if(A, "verify_metadata (None, None) arm")
    some = re.fullmatch(r"(?:meta\.\w+\.is_some\(\)\|\|)*meta\.\w+\.is_some\(\)", cond)
    none = re.fullmatch(r"(?:meta\.\w+\.is_none\(\)&&)*meta\.\w+\.is_none\(\)", cond)
    if some and "Err(" in then_b and "Ok(" not in then_b:
        rest = A
    elif none and else_b is not None and "Err(" in else_b and "Ok(" not in else_b:
        rest = A
    else:
        die("verify_metadata: the stripped-field guard is not the first test of the (None, None) arm")
    fields = sorted(set(re.findall(r"meta\.(\w+)\.is_(?:some|none)\(\)", cond)))
    ms = re.search(r"\bif\s+(!?)\s*strict\s*\{", rest)
    if not ms:
        die("verify_metadata: no strict-mode test in the (None, None) arm")
    sb_end = match_close(rest, rest.index("{", ms.start()))
    sblock = rest[ms.end():sb_end]
    if ms.group(1) == "":
        if "Err(" not in sblock or "Ok(" in sblock:
            die("verify_metadata: strict mode no longer rejects unsealed documents")
    else:
        tail = rest[sb_end + 1:].lstrip()
        if not tail.startswith("else") or "Err(" not in tail:
            die("verify_metadata: strict mode no longer rejects unsealed documents")
    pos = {"guard": gpos, "strict": ms.start()}
    ma = re.search(r"chunk_aad_version\s*\(\s*meta\s*\)\s*\?", rest)
    ml = re.search(r"Ok\s*\(\s*MetadataAuth::Legacy\s*\)", rest)
    if not ma or not ml:
        die("verify_metadata: legacy arm lost `chunk_aad_version(meta)?` or `Ok(MetadataAuth::Legacy)`")
    pos["aadVersion"], pos["legacy"] = ma.start(), ml.start()
    order = sorted(pos, key=pos.get)
    if order != ["guard", "strict", "aadVersion", "legacy"]:
        die(f"verify_metadata: legacy arm order changed: {order}")
    if len(re.findall(r"\bOk\s*\(", rest)) != 1:
        die("verify_metadata: the (None, None) arm accepts in more than one place")
    # ---- the authenticated tail ---------------------------------------------------------------------
    T = text[cb + 1:]
    m1 = re.search(r"metadata_auth_aad\s*\(\s*location\s*,\s*meta\s*\)", T)
    m2 = re.search(r"\bcipher\s*\.\s*decrypt_inout_detached\s*\(", T)
    m4 = re.search(r"chunk_aad_version\s*\(\s*meta\s*\)\s*\?", T)
    m5 = re.search(r"Ok\s*\(\s*MetadataAuth::Authenticated\s*\)\s*\}?\s*$", T.rstrip())
    if not (m1 and m2 and m4 and m5):
        die("verify_metadata: the authenticated tail (aad, decrypt, chunk_aad_version?, Ok(Authenticated)) changed")
    pc = match_close(T, m2.end() - 1)
    args = squash(T[m2.end():pc])
    av = re.search(r"let\s+(\w+)\s*=\s*metadata_auth_aad", T)
    aad_ok = (av and re.search(r"&" + re.escape(av.group(1)) + r"\b", args)) or "metadata_auth_aad(location,meta)" in args
    if not aad_ok:
        die("verify_metadata: decrypt_inout_detached is not given the metadata AAD")
    if f"Nonce::from(**{bind.group(1)})" not in args or f"Tag::from(**{bind.group(2)})" not in args:
        die("verify_metadata: decrypt_inout_detached is not given the document's auth_nonce / auth_tag")
    # the verdict of the GMAC check must be propagated with `?`
    k, depth = pc + 1, 0
    while k < len(T) and not (T[k] == ";" and depth <= 0):
        depth += T[k] in "([{"
        depth -= T[k] in ")]}"
        k += 1
    chain = re.sub(r"[\s})]+", "", T[pc + 1:k].split("|")[-1]) if k < len(T) else ""
    if not squash(T[pc + 1:k]).rstrip("})").endswith("?") and not chain.endswith("?"):
        die("verify_metadata: the result of the metadata GMAC check is not propagated with `?`")
    if not (m1.start() < m2.start() < k <= cb + len(T) and pc < m4.start() < m5.start()):
        die("verify_metadata: order of the authenticated tail changed")
    if re.search(r"\b(return\s+)?Ok\s*\(", T[:m5.start()]):
        die("verify_metadata: the authenticated tail accepts before the checks")
    return fields


def method_body(src, name, must_contain):
    """Body of the non-test `fn name` (free or method) whose body mentions `must_contain`."""
    cut = src.find("#[cfg(test)]")
    hay = src if cut < 0 else src[:cut]
    found = []
    for m in re.finditer(r"\bfn\s+" + re.escape(name) + r"\s*(?:<[^>{(]*>)?\s*\(", hay):
        cp = match_close(hay, m.end() - 1)
        ob = hay.index("{", cp)
        cb = match_close(hay, ob)
        if must_contain in hay[ob:cb]:
            found.append(hay[ob + 1:cb])
    if len(found) != 1:
        die(f"expected exactly one `fn {name}` that calls {must_contain}, found {len(found)}")
    return found[0]


def resolve_loop_verified(body, what):
    """The retry loop of a read path: every metadata document the loop *uses* passes verification first.

    Inside the `loop { … }`: a value obtained from `get_meta(` / `load_meta(` must be bound by a `let` and
    the first thing done with that variable must be a `verify…(… &var …)?` call; `refresh_meta(` (the
    re-resolve after NotFound) must be a discarded expression statement followed by `continue`, so that the
    next iteration re-reads *and re-verifies*. Anything else yields `false` (the generated fact then fails)."""
    text = blank_strings(body)
    m = re.search(r"(?:'\w+\s*:\s*)?\bloop\s*\{", text)
    if not m:
        die(f"{what}: no retry `loop`")
    lb = text[m.end():match_close(text, m.end() - 1)]
    ok = True
    n_sources = 0
    for c in re.finditer(r"\b(get_meta|load_meta|refresh_meta)\s*\(", lb):
        n_sources += 1
        # the statement that contains the call
        st = max(lb.rfind(";", 0, c.start()), lb.rfind("{", 0, c.start()), lb.rfind("}", 0, c.start())) + 1
        head = lb[st:c.start()]
        cp = match_close(lb, c.end() - 1)
        tail = lb[cp + 1:]
        after = re.match(r"\s*\.await\s*\?\s*;", tail)
        if c.group(1) == "refresh_meta":
            discarded = re.fullmatch(r"\s*(?:self\s*\.\s*)?(?:inner\s*\.\s*)?", head) is not None and after is not None
            cont = after is not None and re.match(r"\s*continue\b", tail[after.end():]) is not None
            ok = ok and discarded and cont
            continue
        b = re.fullmatch(r"\s*let\s+(?:mut\s+)?(\w+)\s*(?::[^=]+)?=\s*(?:self\s*\.\s*)?(?:inner\s*\.\s*)?", head)
        if not (b and after):
            ok = False
            continue
        var = b.group(1)
        rest = tail[after.end():]
        use = re.search(r"\b" + re.escape(var) + r"\b", rest)
        if not use:
            continue  # never used
        # the first use must sit inside the argument list of a verify… call whose result is propagated with `?`
        v = None
        for vm in re.finditer(r"\b(?:self\s*\.\s*)?(verify\w*)\s*\(", rest[:use.start() + 1]):
            vcp = match_close(rest, vm.end() - 1)
            if vm.end() <= use.start() < vcp and re.match(r"\s*\?", rest[vcp + 1:]):
                v = vm
        ok = ok and v is not None
    if n_sources == 0:
        die(f"{what}: the retry loop reads no metadata document")
    return ok


def const_val(src, name):
    m = re.search(r"\bconst\s+" + name + r"\s*:\s*\w+\s*=\s*([^;]+);", src)
    if not m:
        die(f"constant {name} not found")
    expr = m.group(1).strip()
    if not re.fullmatch(r"[\d\s\*_]+", expr):
        die(f"constant {name}: unsupported expression {expr}")
    v = 1
    for f in expr.replace("_", "").split("*"):
        v *= int(f)
    return v


def main():
    if len(sys.argv) != 3:
        die("usage: c09_enc_aad.py <repo_root> <gen_dir>")
    repo, gen = sys.argv[1], sys.argv[2]
    path = os.path.join(repo, "rs", "anda_object_store", "src", "encryption.rs")
    try:
        src = strip_comments(open(path).read())
    except OSError as e:
        die(f"cannot read {path}: {e}")

    fns = private_fns(src)
    body, msig = fn_body(src, "metadata_auth_aad")
    layout = translate_meta_aad(body, msig, fns)
    cbody, csig = fn_body(src, "chunk_aad")
    chunk_layout = translate_chunk_aad(cbody, csig, fns)
    shapes = {}
    for h in ("push_bytes", "push_opt_str", "push_opt_u64", "push_opt_u8"):
        b, s = fn_body(src, h)
        shapes[h] = translate_push_helper(h, b, s)
    nb, ns = fn_body(src, "derive_gcm_nonce")
    lo, hi, endian, add = translate_nonce(nb, ns)
    fields = translate_struct(src)
    vb, vsig = fn_body(src, "verify_metadata")
    guard = translate_guard(vb, vsig, fns)
    # ---- the read paths' retry loops (encryption.rs) and copy_payload (sidecar.rs) --------------------------
    side_path = os.path.join(repo, "rs", "anda_object_store", "src", "sidecar.rs")
    try:
        side = strip_comments(open(side_path).read())
    except OSError as e:
        die(f"cannot read {side_path}: {e}")
    loops = [
        ("copy_payload", resolve_loop_verified(method_body(side, "copy_payload", "get_meta("), "copy_payload")),
        ("get_opts", resolve_loop_verified(method_body(src, "get_opts", "get_meta("), "get_opts")),
        ("get_ranges", resolve_loop_verified(method_body(src, "get_ranges", "get_meta("), "get_ranges")),
    ]
    # copy_opts must hand copy_payload a closure that runs verify_metadata(..)? on (location, meta)
    cob = blank_strings(method_body(src, "copy_opts", "copy_payload("))
    cm = re.search(r"\bcopy_payload\s*\(", cob)
    cargs = cob[cm.end():match_close(cob, cm.end() - 1)]
    clos = re.search(r"\|\s*(\w+)\s*,\s*(\w+)\s*\|", cargs)
    copy_closure = False
    if clos:
        vm = re.search(r"\bverify_metadata\s*\(", cargs[clos.end():])
        if vm:
            a0 = clos.end() + vm.end()
            vargs = squash(cargs[a0:match_close(cargs, a0 - 1)])
            copy_closure = (re.search(r"\b" + clos.group(1) + r"\b", vargs) is not None and re.search(r"\b" + clos.group(2) + r"\b", vargs) is not None
                            and re.match(r"\s*\?", cargs[match_close(cargs, a0 - 1) + 1:]) is not None)
    legacy = const_val(src, "CHUNK_AAD_LEGACY")
    bound = const_val(src, "CHUNK_AAD_BOUND")
    default_chunk = const_val(src, "DEFAULT_CHUNK_SIZE")

    def items(xs, indent="  "):
        return "[\n" + ",\n".join(indent + "  " + x for x in xs) + "\n" + indent + "]"

    expected_layout = [
        ".lit " + lean_nats(list(b"anda_object_store.encrypted.metadata.v1")),
        ".pushBytes .location", ".le64 .size", ".optStr .eTag", ".optStr .originalTag", ".optStr .originalVersion",
        ".pushBytes .aesNonce", ".optU64 .chunkSize", ".optU8 .chunkAadVersion", ".lenLe64 .aesTags",
        ".eachPushBytes .aesTags", ".ifSomeBytes .generation " + lean_nats(list(b".g")),
        ".ifSomeU64 .committedAtMs " + lean_nats(list(b".m")),
    ]
    expected_chunk = [".lit " + lean_nats(list(b"anda_object_store.encrypted.chunk.v1")), ".le64ChunkSize", ".le64ChunkIndex"]
    expected_fields = [
        ("size", ".u64", "s", False), ("e_tag", ".optStr", "e", False), ("original_tag", ".optStr", "o", False),
        ("original_version", ".optStr", "v", False), ("aes_nonce", ".bytes 12", "n", False),
        ("aes_tags", ".listBytes 16", "t", False), ("chunk_size", ".optU64", "c", True),
        ("chunk_aad_version", ".optU8", "av", True), ("auth_nonce", ".optBytes 12", "an", True),
        ("auth_tag", ".optBytes 16", "at", True), ("generation", ".optStr", "g", True),
        ("committed_at_ms", ".optU64", "m", True),
    ]

    def fields_term(fs):
        return "[" + ", ".join(f"({field(f[0])}, {f[1]})" for f in fs) + "]"

    def serde_term(fs):
        return "[" + ", ".join(f"({field(f[0])}, {lean_nats(list(f[2].encode()))}, {'true' if f[3] else 'false'})" for f in fs) + "]"

    out = f"""/-
GENERATED by bin/translate/c09_enc_aad.py from rs/anda_object_store/src/encryption.rs — do not edit.
Import-free data read off the source, followed by kernel-checked facts (`gen_*`) stating the values
the C09 proofs were written against.  When the source changes one of these, the fact no longer
checks and the theorems that rewrite with it (metaAad_injective, …) are no longer established.
-/
namespace AndaVerif.Gen.EncAad

/-- Fields of `encryption::Metadata` (plus the logical `location`, which is sealed with them). -/
inductive Field
  | location | size | eTag | originalTag | originalVersion | aesNonce | aesTags | chunkSize
  | chunkAadVersion | authNonce | authTag | generation | committedAtMs
  deriving DecidableEq, Repr

/-- Rust type of a metadata field, as far as the encoders care. -/
inductive FieldType
  | u64 | optU64 | optU8 | optStr | bytes (n : Nat) | optBytes (n : Nat) | listBytes (n : Nat)
  deriving DecidableEq, Repr

/-- One statement of `metadata_auth_aad`, in source order. -/
inductive Item
  | lit (bytes : List Nat)                         -- aad.extend_from_slice(b"…")
  | pushBytes (f : Field)                          -- push_bytes(&mut aad, <f>)
  | le64 (f : Field)                               -- aad.extend_from_slice(&meta.<f>.to_le_bytes())
  | optStr (f : Field)                             -- push_opt_str(&mut aad, meta.<f>.as_deref())
  | optU64 (f : Field)                             -- push_opt_u64(&mut aad, meta.<f>)
  | optU8 (f : Field)                              -- push_opt_u8(&mut aad, meta.<f>)
  | lenLe64 (f : Field)                            -- (meta.<f>.len() as u64).to_le_bytes()
  | eachPushBytes (f : Field)                      -- for x in &meta.<f> {{ push_bytes(&mut aad, x) }}
  | ifSomeBytes (f : Field) (marker : List Nat)    -- if let Some(x) = &meta.<f> {{ lit marker; push_bytes(x) }}
  | ifSomeU64 (f : Field) (marker : List Nat)      -- if let Some(x) = meta.<f> {{ lit marker; x.to_le_bytes() }}
  deriving DecidableEq, Repr

/-- One statement of `chunk_aad`. -/
inductive ChunkItem
  | lit (bytes : List Nat) | le64ChunkSize | le64ChunkIndex
  deriving DecidableEq, Repr

/-- One statement of a `push_*` helper. -/
inductive Shape
  | lenLe64      -- out.extend_from_slice(&(value.len() as u64).to_le_bytes())
  | raw          -- out.extend_from_slice(value)
  | valLe64      -- out.extend_from_slice(&value.to_le_bytes())
  | valByte      -- out.push(value)
  | byte (b : Nat) -- out.push(<literal>)
  | pushBytes    -- push_bytes(out, value.as_bytes())
  deriving DecidableEq, Repr

/-- `match value {{ Some(v) => some, None => none }}`. -/
structure OptShape where
  some : List Shape
  none : List Shape
  deriving DecidableEq, Repr

def metaAadLayout : List Item := {items(layout)}

def chunkAadLayout : List ChunkItem := {items(chunk_layout)}

def pushBytesShape : List Shape := {shapes['push_bytes']}
def pushOptStrShape : OptShape := {shapes['push_opt_str']}
def pushOptU64Shape : OptShape := {shapes['push_opt_u64']}
def pushOptU8Shape : OptShape := {shapes['push_opt_u8']}

/-- `struct Metadata`, in declaration order, with the type class of every field. -/
def metadataFields : List (Field × FieldType) := {fields_term(fields)}

/-- How serde writes the document: per field (declaration order) the map key and whether the entry is
omitted when the value is `None` (`skip_serializing_if = "Option::is_none"`). -/
def serdeFields : List (Field × List Nat × Bool) := {serde_term(fields)}

/-- `verify_metadata`, arm `(None, None)`: presence of any of these without a seal is rejected
before the legacy fallback (and before the strict-mode test). -/
def strippedGuardFields : List Field := [{", ".join(field(f) for f in guard)}]

/-- `derive_gcm_nonce`: bytes `[nonceCtrLo, nonceCtrHi)` of the base nonce are the counter. -/
def nonceCtrLo : Nat := {lo}
def nonceCtrHi : Nat := {hi}
def nonceCtrLittleEndian : Bool := {"true" if endian == "le" else "false"}
def nonceCtrWrappingAdd : Bool := {"true" if add == "wrapping_add" else "false"}

/-- Retry loops of the paths that read a key's metadata document (`SidecarStore::copy_payload`,
`EncryptedStore::get_opts`, `get_ranges`): is every document the loop uses verified first — the one from the
cache / initial load *and* the one re-resolved after NotFound (`refresh_meta` discarded + `continue`)? -/
def resolveLoops : List (String × Bool) := [{", ".join('("%s", %s)' % (n, "true" if v else "false") for n, v in loops)}]

/-- `copy_opts` hands `copy_payload` a verifier that runs `verify_metadata(…, location, meta, …)?`. -/
def copyVerifyClosure : Bool := {"true" if copy_closure else "false"}

def chunkAadLegacy : Nat := {legacy}
def chunkAadBound : Nat := {bound}
def defaultChunkSize : Nat := {default_chunk}

/-- Fields mentioned by an item of the metadata AAD layout. -/
def Item.field? : Item → Option Field
  | .lit _ => none
  | .pushBytes f | .le64 f | .optStr f | .optU64 f | .optU8 f | .lenLe64 f | .eachPushBytes f
  | .ifSomeBytes f _ | .ifSomeU64 f _ => some f

/-! ## Facts the proofs rewrite with -/

theorem gen_metaAadLayout : metaAadLayout = {items(expected_layout)} := by decide

theorem gen_chunkAadLayout : chunkAadLayout = {items(expected_chunk)} := by decide

theorem gen_pushShapes :
    pushBytesShape = [.lenLe64, .raw] ∧
    pushOptStrShape = ⟨[.byte 1, .pushBytes], [.byte 0]⟩ ∧
    pushOptU64Shape = ⟨[.byte 1, .valLe64], [.byte 0]⟩ ∧
    pushOptU8Shape = ⟨[.byte 1, .valByte], [.byte 0]⟩ := by decide

theorem gen_metadataFields : metadataFields = {fields_term(expected_fields)} := by decide

theorem gen_serdeFields : serdeFields = {serde_term(expected_fields)} := by decide

/-- Every field of `Metadata` except the seal itself (`auth_nonce`, `auth_tag`) is pushed into the
authenticated data — no field is outside the seal. -/
theorem gen_allFieldsSealed :
    ∀ f ∈ metadataFields.map (·.1), f = .authNonce ∨ f = .authTag ∨ some f ∈ metaAadLayout.map Item.field? := by
  decide

theorem gen_strippedGuard : strippedGuardFields = [.chunkAadVersion, .generation] := by decide

theorem gen_nonceShape :
    nonceCtrLo = 4 ∧ nonceCtrHi = 12 ∧ nonceCtrLittleEndian = true ∧ nonceCtrWrappingAdd = true := by decide

theorem gen_resolveLoopsVerified :
    resolveLoops = [("copy_payload", true), ("get_opts", true), ("get_ranges", true)] ∧ copyVerifyClosure = true := by
  decide

theorem gen_chunkAadVersions : chunkAadLegacy = 0 ∧ chunkAadBound = 1 := by decide

end AndaVerif.Gen.EncAad
"""
    os.makedirs(gen, exist_ok=True)
    target = os.path.join(gen, "EncAad.lean")
    old = open(target).read() if os.path.exists(target) else None
    if old != out:
        open(target, "w").write(out)
    print("GEN EncAad.lean")


if __name__ == "__main__":
    main()
