#!/usr/bin/env python3
"""c09_enc_aad.py <repo_root> <gen_dir>  ->  <gen_dir>/EncAad.lean

Regenerates, from rs/anda_object_store/src/encryption.rs, the data-like parts of the C09 model:

  * the push order of `metadata_auth_aad` (which field, through which encoder) -> `metaAadLayout`
  * the layout of `chunk_aad`                                                  -> `chunkAadLayout`
  * the bodies of the length-prefixed encoders `push_bytes`, `push_opt_str`, `push_opt_u64`,
    `push_opt_u8` as small shape terms                                         -> `push*Shape`
  * the shape of `derive_gcm_nonce` (salt kept, counter window, little endian, wrapping add)
  * the field list of `struct Metadata` with a type class per field            -> `metadataFields`
  * the downgrade guard of `verify_metadata` (fields whose presence without a seal is rejected)
  * `CHUNK_AAD_LEGACY`, `CHUNK_AAD_BOUND`, `DEFAULT_CHUNK_SIZE`

and ends the file with kernel-checked facts `gen_*` that state the values the proofs were written
against.  Works on a comment-stripped copy, keys on call names and nesting (not on layout); an
unrecognised statement inside one of the translated functions is an error, never skipped.
"""
import os
import re
import sys


def die(msg):
    print(f"c09_enc_aad: {msg}", file=sys.stderr)
    sys.exit(1)


def strip_comments(src):
    out, i, n = [], 0, len(src)
    while i < n:
        c = src[i]
        if src.startswith("//", i):
            while i < n and src[i] != "\n":
                i += 1
        elif src.startswith("/*", i):
            depth = 1
            i += 2
            while i < n and depth:
                if src.startswith("/*", i):
                    depth += 1
                    i += 2
                elif src.startswith("*/", i):
                    depth -= 1
                    i += 2
                else:
                    i += 1
        elif c == '"':
            j = i + 1
            while j < n and src[j] != '"':
                j += 2 if src[j] == "\\" else 1
            out.append(src[i:j + 1])
            i = j + 1
        elif c == "'" and i + 2 < n and (src[i + 2] == "'" or (src[i + 1] == "\\" and "'" in src[i + 2:i + 6])):
            j = src.index("'", i + 2 if src[i + 1] != "\\" else i + 3)
            out.append(src[i:j + 1])
            i = j + 1
        else:
            out.append(c)
            i += 1
    return "".join(out)


def match_brace(src, open_idx):
    assert src[open_idx] == "{"
    depth, i, n = 0, open_idx, len(src)
    while i < n:
        c = src[i]
        if c == '"':
            j = i + 1
            while j < n and src[j] != '"':
                j += 2 if src[j] == "\\" else 1
            i = j + 1
            continue
        if c == "{":
            depth += 1
        elif c == "}":
            depth -= 1
            if depth == 0:
                return i
        i += 1
    die("unbalanced braces")


def fn_body(src, name, in_tests=False):
    """Body text of the unique non-test `fn name(...)`."""
    cut = src.find("#[cfg(test)]")
    hay = src if cut < 0 else src[:cut]
    ms = list(re.finditer(r"\bfn\s+" + re.escape(name) + r"\s*(?:<[^>]*>)?\s*\(", hay))
    # free functions only: methods of the same name (`&self`) are thin forwarders
    ms = [m for m in ms if not re.match(r"\s*&?\s*(mut\s+)?self\b", hay[m.end():m.end() + 20])]
    if len(ms) != 1:
        die(f"expected exactly one `fn {name}` outside the tests, found {len(ms)}")
    ob = hay.index("{", ms[0].end())
    cb = match_brace(hay, ob)
    return hay[ob + 1:cb], hay[ms[0].start():ob]


def split_statements(body):
    """Top-level statements of a block: `...;` or `kw ... { ... }` (with optional else chains)."""
    stmts, i, n = [], 0, len(body)
    cur = []
    depth_paren = 0
    while i < n:
        c = body[i]
        if c == '"':
            j = i + 1
            while j < n and body[j] != '"':
                j += 2 if body[j] == "\\" else 1
            cur.append(body[i:j + 1])
            i = j + 1
            continue
        if c in "([":
            depth_paren += 1
        elif c in ")]":
            depth_paren -= 1
        if c == "{" and depth_paren == 0:
            j = match_brace(body, i)
            cur.append(body[i:j + 1])
            i = j + 1
            head = "".join(cur).strip()
            # a block statement ends here unless it is an expression continued by `;` / `.`/ else
            rest = body[i:].lstrip()
            if rest.startswith("else"):
                continue
            if re.match(r"^(if|for|while|match|loop)\b", head) and not rest.startswith((".", ";", "?")):
                stmts.append(head)
                cur = []
            continue
        if c == ";" and depth_paren == 0:
            s = "".join(cur).strip()
            if s:
                stmts.append(s)
            cur = []
            i += 1
            continue
        cur.append(c)
        i += 1
    tail = "".join(cur).strip()
    if tail:
        stmts.append(tail)
    return stmts


def norm(s):
    return re.sub(r"\s+", " ", s).strip()


def squash(s):
    return re.sub(r"\s+", "", s)


def lit_bytes(s):
    """b"..." -> list of ints (only plain ASCII without escapes is expected)."""
    m = re.fullmatch(r'b"([^"\\]*)"', s)
    if not m:
        die(f"unsupported byte-string literal {s}")
    return list(m.group(1).encode("ascii"))


CAMEL = {
    "location": "location", "size": "size", "e_tag": "eTag", "original_tag": "originalTag",
    "original_version": "originalVersion", "aes_nonce": "aesNonce", "aes_tags": "aesTags",
    "chunk_size": "chunkSize", "chunk_aad_version": "chunkAadVersion", "auth_nonce": "authNonce",
    "auth_tag": "authTag", "generation": "generation", "committed_at_ms": "committedAtMs",
}


def field(name):
    if name not in CAMEL:
        die(f"metadata field `{name}` is unknown to the C09 model (new field? extend Model/Enc.lean and this translator)")
    return "." + CAMEL[name]


def lean_nats(bs):
    return "[" + ", ".join(str(b) for b in bs) + "]"


def local_names(body, sig, types):
    """Names of the parameters with the given (squashed) types, and of the `let mut <buf> = Vec::…` buffer."""
    names = []
    for ty in types:
        m = re.search(r"(\w+)\s*:\s*" + re.escape(ty).replace(r"\ ", r"\s*") + r"\s*[,)]", sig + ")")
        if not m:
            die(f"parameter of type {ty} not found in `{norm(sig)[:80]}`")
        names.append(m.group(1))
    m = re.search(r"let\s+mut\s+(\w+)\s*(?::\s*Vec<u8>)?\s*=\s*Vec::", body)
    if not m:
        die("no `let mut <buf> = Vec::…` buffer")
    return names, m.group(1)


def canon(text, mapping):
    """Renames locals to the canonical names the patterns below use (whole identifiers only)."""
    for old, new in mapping.items():
        if old != new:
            if re.search(r"\b" + re.escape(new) + r"\b", text):
                die(f"cannot canonicalise local `{old}` to `{new}`: `{new}` is also in use")
            text = re.sub(r"\b" + re.escape(old) + r"\b", new, text)
    return text


def translate_meta_aad(body, sig, buf="aad"):
    (loc, meta), b = local_names(body, sig, ["&Path", "&Metadata"])
    body = canon(body, {b: "aad", loc: "location", meta: "meta"})
    items = []
    for st in split_statements(body):
        s = squash(st)
        if re.fullmatch(r"letmut%s(:Vec<u8>)?=Vec::(new\(\)|with_capacity\(\d+\))" % buf, s):
            continue
        if s == buf:
            continue
        m = re.fullmatch(r'%s\.extend_from_slice\((b"[^"]*")\)' % buf, s)
        if m:
            items.append(f".lit {lean_nats(lit_bytes(m.group(1)))}")
            continue
        m = re.fullmatch(r"push_bytes\(&mut%s,location\.to_string\(\)\.as_bytes\(\)\)" % buf, s)
        if m:
            items.append(".pushBytes .location")
            continue
        m = re.fullmatch(r"push_bytes\(&mut%s,meta\.(\w+)\.as_slice\(\)\)" % buf, s)
        if m:
            items.append(f".pushBytes {field(m.group(1))}")
            continue
        m = re.fullmatch(r"%s\.extend_from_slice\(&meta\.(\w+)\.to_le_bytes\(\)\)" % buf, s)
        if m:
            items.append(f".le64 {field(m.group(1))}")
            continue
        m = re.fullmatch(r"push_opt_str\(&mut%s,meta\.(\w+)\.as_deref\(\)\)" % buf, s)
        if m:
            items.append(f".optStr {field(m.group(1))}")
            continue
        m = re.fullmatch(r"push_opt_u64\(&mut%s,meta\.(\w+)\)" % buf, s)
        if m:
            items.append(f".optU64 {field(m.group(1))}")
            continue
        m = re.fullmatch(r"push_opt_u8\(&mut%s,meta\.(\w+)\)" % buf, s)
        if m:
            items.append(f".optU8 {field(m.group(1))}")
            continue
        m = re.fullmatch(r"%s\.extend_from_slice\(&\(meta\.(\w+)\.len\(\)asu64\)\.to_le_bytes\(\)\)" % buf, s)
        if m:
            items.append(f".lenLe64 {field(m.group(1))}")
            continue
        m = re.fullmatch(r"for(\w+)in&meta\.(\w+)\{push_bytes\(&mut%s,(\w+)\.as_slice\(\)\);?\}" % buf, s)
        if m and m.group(1) == m.group(3):
            items.append(f".eachPushBytes {field(m.group(2))}")
            continue
        m = re.fullmatch(r'ifletSome\((\w+)\)=&?meta\.(\w+)\{%s\.extend_from_slice\((b"[^"]*")\);'
                         r'push_bytes\(&mut%s,(\w+)\.as_bytes\(\)\);?\}' % (buf, buf), s)
        if m and m.group(1) == m.group(4):
            items.append(f".ifSomeBytes {field(m.group(2))} {lean_nats(lit_bytes(m.group(3)))}")
            continue
        m = re.fullmatch(r'ifletSome\((\w+)\)=&?meta\.(\w+)\{%s\.extend_from_slice\((b"[^"]*")\);'
                         r'%s\.extend_from_slice\(&(\w+)\.to_le_bytes\(\)\);?\}' % (buf, buf), s)
        if m and m.group(1) == m.group(4):
            items.append(f".ifSomeU64 {field(m.group(2))} {lean_nats(lit_bytes(m.group(3)))}")
            continue
        die(f"metadata_auth_aad: statement not understood: {norm(st)[:160]}")
    if not items:
        die("metadata_auth_aad: empty layout")
    return items


def translate_chunk_aad(body, sig):
    params = re.findall(r"(\w+)\s*:\s*u64", sig)
    if len(params) != 2:
        die(f"chunk_aad: expected two u64 parameters (chunk size, chunk index), found {params}")
    _, b = local_names(body, sig, [])
    body = canon(body, {b: "aad", params[0]: "chunk_size", params[1]: "chunk_index"})
    items = []
    for st in split_statements(body):
        s = squash(st)
        if re.fullmatch(r"letmutaad(:Vec<u8>)?=Vec::(new\(\)|with_capacity\(\d+\))", s) or s == "aad":
            continue
        m = re.fullmatch(r'aad\.extend_from_slice\((b"[^"]*")\)', s)
        if m:
            items.append(f".lit {lean_nats(lit_bytes(m.group(1)))}")
            continue
        m = re.fullmatch(r"aad\.extend_from_slice\(&(chunk_size|chunk_index)\.to_le_bytes\(\)\)", s)
        if m:
            items.append(".le64ChunkSize" if m.group(1) == "chunk_size" else ".le64ChunkIndex")
            continue
        die(f"chunk_aad: statement not understood: {norm(st)[:160]}")
    return items


def translate_push_helper(name, body, sig):
    """Returns a Lean `Shape` term list (or a pair for the Option helpers)."""
    def seq(text, var):
        out = []
        for st in split_statements(text):
            s = squash(st)
            if re.fullmatch(r"out\.extend_from_slice\(&\(%s\.len\(\)asu64\)\.to_le_bytes\(\)\)" % var, s):
                out.append(".lenLe64")
            elif re.fullmatch(r"out\.extend_from_slice\(%s\)" % var, s):
                out.append(".raw")
            elif re.fullmatch(r"out\.extend_from_slice\(&%s\.to_le_bytes\(\)\)" % var, s):
                out.append(".valLe64")
            elif re.fullmatch(r"out\.push\(%s\)" % var, s):
                out.append(".valByte")
            elif (m := re.fullmatch(r"out\.push\((\d+)\)", s)):
                out.append(f".byte {m.group(1)}")
            elif re.fullmatch(r"push_bytes\(out,%s\.as_bytes\(\)\)" % var, s):
                out.append(".pushBytes")
            else:
                die(f"{name}: statement not understood: {norm(st)[:120]}")
        return out

    if name == "push_bytes":
        if "value: &[u8]" not in norm(sig):
            die("push_bytes: signature changed")
        return "[" + ", ".join(seq(body, "value")) + "]"
    sts = split_statements(body)
    if len(sts) != 1 or not squash(sts[0]).startswith("matchvalue{"):
        die(f"{name}: expected a single `match value`")
    inner = sts[0][sts[0].index("{") + 1:sts[0].rindex("}")]
    m_some = re.search(r"Some\s*\(\s*(\w+)\s*\)\s*=>\s*\{", inner)
    if not m_some:
        die(f"{name}: no `Some(..) => {{` arm")
    ob = inner.index("{", m_some.start())
    cb = match_brace(inner, ob)
    some_seq = seq(inner[ob + 1:cb], m_some.group(1))
    rest = inner[cb + 1:]
    m_none = re.search(r"None\s*=>\s*([^,}]+)", rest) or re.search(r"None\s*=>\s*([^,}]+)", inner[:m_some.start()])
    if not m_none:
        die(f"{name}: no `None =>` arm")
    none_seq = seq(m_none.group(1).strip() + ";", "value")
    return "⟨[" + ", ".join(some_seq) + "], [" + ", ".join(none_seq) + "]⟩"


def translate_nonce(body, sig):
    s = squash(body)
    if "base:&[u8;12]" not in squash(sig) or "idx:u64" not in squash(sig) or "->[u8;12]" not in squash(sig):
        die("derive_gcm_nonce: signature changed")
    m = re.search(r"ctr\.copy_from_slice\(&nonce\[(\d+)\.\.(\d+)\]\)", s)
    m2 = re.search(r"nonce\[(\d+)\.\.(\d+)\]\.copy_from_slice\(&c\.to_le_bytes\(\)\)", s)
    m3 = re.search(r"letc=u64::from_(le|be)_bytes\(ctr\)\.(\w+)\(idx\)", s)
    if not (m and m2 and m3 and "letmutnonce=*base" in s and s.endswith("nonce")):
        die("derive_gcm_nonce: body not understood")
    if (m.group(1), m.group(2)) != (m2.group(1), m2.group(2)):
        die("derive_gcm_nonce: counter is read from and written to different windows")
    return int(m.group(1)), int(m.group(2)), m3.group(1), m3.group(2)


TYPE_CLASS = [
    (r"u64", ".u64"), (r"Option<u64>", ".optU64"), (r"Option<u8>", ".optU8"), (r"Option<String>", ".optStr"),
    (r"ByteArray<12>", ".bytes 12"), (r"Vec<ByteArray<16>>", ".listBytes 16"), (r"Option<ByteArray<12>>", ".optBytes 12"),
    (r"Option<ByteArray<16>>", ".optBytes 16"),
]


def translate_struct(src):
    ms = list(re.finditer(r"\bpub\s+struct\s+Metadata\s*\{", src))
    if len(ms) != 1:
        die(f"expected exactly one `pub struct Metadata`, found {len(ms)}")
    ob = src.index("{", ms[0].start())
    cb = match_brace(src, ob)
    body = re.sub(r"#\[[^\]]*\]", "", src[ob + 1:cb])
    fields = []
    for part in body.split(","):
        part = part.strip()
        if not part:
            continue
        m = re.fullmatch(r"(?:pub(?:\([^)]*\))?\s+)?(\w+)\s*:\s*(.+)", part, re.S)
        if not m:
            # generic types contain commas only for multi-parameter generics, none expected here
            die(f"struct Metadata: field not understood: {norm(part)[:80]}")
        ty = squash(m.group(2))
        cls = next((c for t, c in TYPE_CLASS if squash(t) == ty), None)
        if cls is None:
            die(f"struct Metadata: field `{m.group(1)}` has a type unknown to the model: {ty}")
        fields.append((m.group(1), cls))
    return fields


def translate_guard(body):
    """Fields tested in the `(None, None)` arm of verify_metadata before legacy acceptance."""
    m = re.search(r"\(\s*None\s*,\s*None\s*\)\s*=>\s*\{", body)
    if not m:
        die("verify_metadata: no `(None, None) => {` arm")
    ob = body.index("{", m.start())
    cb = match_brace(body, ob)
    arm = body[ob + 1:cb]
    sts = split_statements(arm)
    # first statement must be the downgrade guard, second the strict-mode rejection
    g = squash(sts[0]) if sts else ""
    mg = re.match(r"if((?:meta\.\w+\.is_some\(\)\|\|)*meta\.\w+\.is_some\(\))\{returnErr\(", g)
    if not mg:
        die("verify_metadata: the stripped-field guard is not the first statement of the (None, None) arm")
    fields = re.findall(r"meta\.(\w+)\.is_some\(\)", mg.group(1))
    if len(sts) < 2 or not squash(sts[1]).startswith("ifstrict{returnErr("):
        die("verify_metadata: strict-mode rejection does not follow the stripped-field guard")
    order = ["guard", "strict"]
    for st in sts[2:]:
        s = squash(st)
        if s.startswith("chunk_aad_version(meta)?"):
            order.append("aadVersion")
        elif s.startswith("log::warn!"):
            continue
        elif s.startswith("returnOk(MetadataAuth::Legacy)"):
            order.append("legacy")
        else:
            die(f"verify_metadata: statement not understood in the legacy arm: {norm(st)[:100]}")
    if order != ["guard", "strict", "aadVersion", "legacy"]:
        die(f"verify_metadata: legacy arm order changed: {order}")
    # the two half-stripped arms must reject
    for pat, what in ((r"\(\s*None\s*,\s*Some\s*\(\s*_\s*\)\s*\)\s*=>\s*\{\s*return\s+Err", "(None, Some(_))"),
                      (r"\(\s*Some\s*\(\s*_\s*\)\s*,\s*None\s*\)\s*=>\s*\{\s*return\s+Err", "(Some(_), None)")):
        if not re.search(pat, body):
            die(f"verify_metadata: arm {what} no longer rejects")
    # after the match: AAD, decrypt with `?`, aad-version check, Authenticated
    tail = squash(body[body.index("};", cb) + 2:]) if "};" in body[cb:] else die("verify_metadata: match tail not found")
    if not re.fullmatch(r"letaad=metadata_auth_aad\(location,meta\);letmutempty=\[\];cipher\.decrypt_inout_detached\(&Nonce::from\(\*\*nonce\),&aad,\(&mutempty\[\.\.\]\)\.into\(\),&Tag::from\(\*\*tag\),?\)\.map_err\(.*\)\?;chunk_aad_version\(meta\)\?;Ok\(MetadataAuth::Authenticated\)", tail):
        die("verify_metadata: the authenticated tail (aad, decrypt?, chunk_aad_version?, Ok) changed")
    return fields


def const_val(src, name):
    m = re.search(r"\bconst\s+" + name + r"\s*:\s*\w+\s*=\s*([^;]+);", src)
    if not m:
        die(f"constant {name} not found")
    expr = m.group(1).strip()
    if not re.fullmatch(r"[\d\s\*_]+", expr):
        die(f"constant {name}: unsupported expression {expr}")
    v = 1
    for f in expr.replace("_", "").split("*"):
        v *= int(f)
    return v


def main():
    if len(sys.argv) != 3:
        die("usage: c09_enc_aad.py <repo_root> <gen_dir>")
    repo, gen = sys.argv[1], sys.argv[2]
    path = os.path.join(repo, "rs", "anda_object_store", "src", "encryption.rs")
    try:
        src = strip_comments(open(path).read())
    except OSError as e:
        die(f"cannot read {path}: {e}")

    body, msig = fn_body(src, "metadata_auth_aad")
    layout = translate_meta_aad(body, msig)
    cbody, csig = fn_body(src, "chunk_aad")
    chunk_layout = translate_chunk_aad(cbody, csig)
    shapes = {}
    for h in ("push_bytes", "push_opt_str", "push_opt_u64", "push_opt_u8"):
        b, s = fn_body(src, h)
        shapes[h] = translate_push_helper(h, b, s)
    nb, ns = fn_body(src, "derive_gcm_nonce")
    lo, hi, endian, add = translate_nonce(nb, ns)
    fields = translate_struct(src)
    vb, _ = fn_body(src, "verify_metadata")
    guard = translate_guard(vb)
    legacy = const_val(src, "CHUNK_AAD_LEGACY")
    bound = const_val(src, "CHUNK_AAD_BOUND")
    default_chunk = const_val(src, "DEFAULT_CHUNK_SIZE")

    def items(xs, indent="  "):
        return "[\n" + ",\n".join(indent + "  " + x for x in xs) + "\n" + indent + "]"

    expected_layout = [
        ".lit " + lean_nats(list(b"anda_object_store.encrypted.metadata.v1")),
        ".pushBytes .location", ".le64 .size", ".optStr .eTag", ".optStr .originalTag", ".optStr .originalVersion",
        ".pushBytes .aesNonce", ".optU64 .chunkSize", ".optU8 .chunkAadVersion", ".lenLe64 .aesTags",
        ".eachPushBytes .aesTags", ".ifSomeBytes .generation " + lean_nats(list(b".g")),
        ".ifSomeU64 .committedAtMs " + lean_nats(list(b".m")),
    ]
    expected_chunk = [".lit " + lean_nats(list(b"anda_object_store.encrypted.chunk.v1")), ".le64ChunkSize", ".le64ChunkIndex"]
    expected_fields = [
        ("size", ".u64"), ("e_tag", ".optStr"), ("original_tag", ".optStr"), ("original_version", ".optStr"),
        ("aes_nonce", ".bytes 12"), ("aes_tags", ".listBytes 16"), ("chunk_size", ".optU64"),
        ("chunk_aad_version", ".optU8"), ("auth_nonce", ".optBytes 12"), ("auth_tag", ".optBytes 16"),
        ("generation", ".optStr"), ("committed_at_ms", ".optU64"),
    ]

    def fields_term(fs):
        return "[" + ", ".join(f"({field(n)}, {c})" for n, c in fs) + "]"

    out = f"""/-
GENERATED by bin/translate/c09_enc_aad.py from rs/anda_object_store/src/encryption.rs — do not edit.
Import-free data read off the source, followed by kernel-checked facts (`gen_*`) stating the values
the C09 proofs were written against.  When the source changes one of these, the fact no longer
checks and the theorems that rewrite with it (metaAad_injective, …) are no longer established.
-/
namespace AndaVerif.Gen.EncAad

/-- Fields of `encryption::Metadata` (plus the logical `location`, which is sealed with them). -/
inductive Field
  | location | size | eTag | originalTag | originalVersion | aesNonce | aesTags | chunkSize
  | chunkAadVersion | authNonce | authTag | generation | committedAtMs
  deriving DecidableEq, Repr

/-- Rust type of a metadata field, as far as the encoders care. -/
inductive FieldType
  | u64 | optU64 | optU8 | optStr | bytes (n : Nat) | optBytes (n : Nat) | listBytes (n : Nat)
  deriving DecidableEq, Repr

/-- One statement of `metadata_auth_aad`, in source order. -/
inductive Item
  | lit (bytes : List Nat)                         -- aad.extend_from_slice(b"…")
  | pushBytes (f : Field)                          -- push_bytes(&mut aad, <f>)
  | le64 (f : Field)                               -- aad.extend_from_slice(&meta.<f>.to_le_bytes())
  | optStr (f : Field)                             -- push_opt_str(&mut aad, meta.<f>.as_deref())
  | optU64 (f : Field)                             -- push_opt_u64(&mut aad, meta.<f>)
  | optU8 (f : Field)                              -- push_opt_u8(&mut aad, meta.<f>)
  | lenLe64 (f : Field)                            -- (meta.<f>.len() as u64).to_le_bytes()
  | eachPushBytes (f : Field)                      -- for x in &meta.<f> {{ push_bytes(&mut aad, x) }}
  | ifSomeBytes (f : Field) (marker : List Nat)    -- if let Some(x) = &meta.<f> {{ lit marker; push_bytes(x) }}
  | ifSomeU64 (f : Field) (marker : List Nat)      -- if let Some(x) = meta.<f> {{ lit marker; x.to_le_bytes() }}
  deriving DecidableEq, Repr

/-- One statement of `chunk_aad`. -/
inductive ChunkItem
  | lit (bytes : List Nat) | le64ChunkSize | le64ChunkIndex
  deriving DecidableEq, Repr

/-- One statement of a `push_*` helper. -/
inductive Shape
  | lenLe64      -- out.extend_from_slice(&(value.len() as u64).to_le_bytes())
  | raw          -- out.extend_from_slice(value)
  | valLe64      -- out.extend_from_slice(&value.to_le_bytes())
  | valByte      -- out.push(value)
  | byte (b : Nat) -- out.push(<literal>)
  | pushBytes    -- push_bytes(out, value.as_bytes())
  deriving DecidableEq, Repr

/-- `match value {{ Some(v) => some, None => none }}`. -/
structure OptShape where
  some : List Shape
  none : List Shape
  deriving DecidableEq, Repr

def metaAadLayout : List Item := {items(layout)}

def chunkAadLayout : List ChunkItem := {items(chunk_layout)}

def pushBytesShape : List Shape := {shapes['push_bytes']}
def pushOptStrShape : OptShape := {shapes['push_opt_str']}
def pushOptU64Shape : OptShape := {shapes['push_opt_u64']}
def pushOptU8Shape : OptShape := {shapes['push_opt_u8']}

/-- `struct Metadata`, in declaration order, with the type class of every field. -/
def metadataFields : List (Field × FieldType) := {fields_term(fields)}

/-- `verify_metadata`, arm `(None, None)`: presence of any of these without a seal is rejected
before the legacy fallback (and before the strict-mode test). -/
def strippedGuardFields : List Field := [{", ".join(field(f) for f in guard)}]

/-- `derive_gcm_nonce`: bytes `[nonceCtrLo, nonceCtrHi)` of the base nonce are the counter. -/
def nonceCtrLo : Nat := {lo}
def nonceCtrHi : Nat := {hi}
def nonceCtrLittleEndian : Bool := {"true" if endian == "le" else "false"}
def nonceCtrWrappingAdd : Bool := {"true" if add == "wrapping_add" else "false"}

def chunkAadLegacy : Nat := {legacy}
def chunkAadBound : Nat := {bound}
def defaultChunkSize : Nat := {default_chunk}

/-- Fields mentioned by an item of the metadata AAD layout. -/
def Item.field? : Item → Option Field
  | .lit _ => none
  | .pushBytes f | .le64 f | .optStr f | .optU64 f | .optU8 f | .lenLe64 f | .eachPushBytes f
  | .ifSomeBytes f _ | .ifSomeU64 f _ => some f

/-! ## Facts the proofs rewrite with -/

theorem gen_metaAadLayout : metaAadLayout = {items(expected_layout)} := by decide

theorem gen_chunkAadLayout : chunkAadLayout = {items(expected_chunk)} := by decide

theorem gen_pushShapes :
    pushBytesShape = [.lenLe64, .raw] ∧
    pushOptStrShape = ⟨[.byte 1, .pushBytes], [.byte 0]⟩ ∧
    pushOptU64Shape = ⟨[.byte 1, .valLe64], [.byte 0]⟩ ∧
    pushOptU8Shape = ⟨[.byte 1, .valByte], [.byte 0]⟩ := by decide

theorem gen_metadataFields : metadataFields = {fields_term(expected_fields)} := by decide

/-- Every field of `Metadata` except the seal itself (`auth_nonce`, `auth_tag`) is pushed into the
authenticated data — no field is outside the seal. -/
theorem gen_allFieldsSealed :
    ∀ f ∈ metadataFields.map (·.1), f = .authNonce ∨ f = .authTag ∨ some f ∈ metaAadLayout.map Item.field? := by
  decide

theorem gen_strippedGuard : strippedGuardFields = [.chunkAadVersion, .generation] := by decide

theorem gen_nonceShape :
    nonceCtrLo = 4 ∧ nonceCtrHi = 12 ∧ nonceCtrLittleEndian = true ∧ nonceCtrWrappingAdd = true := by decide

theorem gen_chunkAadVersions : chunkAadLegacy = 0 ∧ chunkAadBound = 1 := by decide

end AndaVerif.Gen.EncAad
"""
    os.makedirs(gen, exist_ok=True)
    target = os.path.join(gen, "EncAad.lean")
    old = open(target).read() if os.path.exists(target) else None
    if old != out:
        open(target, "w").write(out)
    print("GEN EncAad.lean")


if __name__ == "__main__":
    main()
