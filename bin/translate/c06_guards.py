#!/usr/bin/env python3
"""C06: regenerates from rs/anda_db/src/collection.rs (+ database.rs)

  Gen/Lifecycle.lean         the six LIFECYCLE_* constants and, per function that does a
                             `compare_exchange` / `store` on `lifecycle`, every (from, to) pair;
                             the order of the effect markers of `AndaDB::delete_collection`,
                             `close_collection` and of the retiring-handle branch of
                             `open_collection_with_schema`
  Gen/CollectionGuards.lean  for every fn of `impl Collection` its receiver class, visibility and
                             *guard skeleton* (markers in textual order) plus the intra-file call
                             graph and its closure "transitively reaches a storage mutation".

Strict about meaning (unknown lifecycle constant, a CAS whose source set cannot be determined, a
missing function => error), tolerant about layout (comment-stripped copy, regexes keyed on names).
"""
import re, sys
from common import *

repo, gen = sys.argv[1], sys.argv[2]
REL = "rs/anda_db/src/collection.rs"
src_full = strip_rust_comments(read_source(repo, REL))
# production code only
m = re.search(r"#\[cfg\(test\)\]\s*mod\s+tests", src_full)
src = src_full[:m.start()] if m else src_full

# ------------------------------------------------------------------------------------------
# lifecycle constants
# ------------------------------------------------------------------------------------------
STATES = ["ACTIVE", "CLOSING", "CLOSED", "DELETING", "DELETED", "POISONED"]
consts = {}
for m in re.finditer(r"\bconst\s+LIFECYCLE_(\w+)\s*:\s*u8\s*=\s*(\d+)\s*;", src):
    if m.group(1) in consts:
        die(f"c06_guards: duplicate const LIFECYCLE_{m.group(1)}")
    consts[m.group(1)] = int(m.group(2))
if sorted(consts) != sorted(STATES):
    die(f"c06_guards: lifecycle constants changed: found {sorted(consts)}, expected {sorted(STATES)}")
if len(set(consts.values())) != len(consts):
    die("c06_guards: two lifecycle constants share a value")

# ------------------------------------------------------------------------------------------
# fns of `impl Collection`
# ------------------------------------------------------------------------------------------

def match_brace(text, i, open_c="{", close_c="}"):
    depth = 0
    j = i
    while j < len(text):
        if text[j] == open_c:
            depth += 1
        elif text[j] == close_c:
            depth -= 1
            if depth == 0:
                return j
        j += 1
    die("c06_guards: unbalanced delimiters")


def impl_blocks(text, ty):
    out = []
    for m in re.finditer(r"(?m)^impl\s+" + ty + r"\s*\{", text):
        i = text.index("{", m.start())
        j = match_brace(text, i)
        out.append((i + 1, j))
    if not out:
        die(f"c06_guards: `impl {ty}` not found")
    return out


FN_RE = re.compile(r"(?:(pub)(\s*\(\s*(?:crate|super|in [\w:]+)\s*\))?\s+)?(?:const\s+)?(async\s+)?fn\s+(\w+)")


def fns_of(text, ty):
    fns = {}
    for (a, b) in impl_blocks(text, ty):
        i = a
        depth = 0
        while i < b:
            c = text[i]
            if c == "{":
                depth += 1
                i += 1
                continue
            if c == "}":
                depth -= 1
                i += 1
                continue
            if depth == 0:
                m = FN_RE.match(text, i)
                if m and (i == 0 or not (text[i - 1].isalnum() or text[i - 1] == "_")):
                    name = m.group(4)
                    vis = 2 if (m.group(1) and not m.group(2)) else 1 if m.group(1) else 0
                    is_async = bool(m.group(3))
                    # parameter list: first '(' at angle-depth 0 after the name
                    k = m.end()
                    if text[k:k + 1] == "<":
                        # generic parameters
                        d = 0
                        while True:
                            if text[k] == "<":
                                d += 1
                            elif text[k] == ">" and text[k - 1] != "-":
                                d -= 1
                                if d == 0:
                                    k += 1
                                    break
                            k += 1
                    p0 = text.index("(", k)
                    p1 = match_brace(text, p0, "(", ")")
                    params = text[p0 + 1:p1]
                    first = params.split(",")[0].strip()
                    recv = "excl" if re.fullmatch(r"&\s*(?:'\w+\s+)?mut\s+self", first) else \
                        "shared" if re.fullmatch(r"&\s*(?:'\w+\s+)?self", first) else \
                        "owned" if first in ("self", "mut self") else "none"
                    b0 = text.index("{", p1)
                    semi = text.find(";", p1)
                    if semi != -1 and semi < b0:
                        i = semi + 1
                        continue
                    b1 = match_brace(text, b0)
                    if name in fns:
                        die(f"c06_guards: fn {name} defined twice in impl {ty}")
                    fns[name] = dict(name=name, vis=vis, is_async=is_async, recv=recv, body=text[b0 + 1:b1])
                    i = b1 + 1
                    continue
            i += 1
    return fns


fns = fns_of(src, "Collection")
for need in ["ensure_mutable", "mutation_lease", "cancel_guard", "poison", "close", "flush", "begin_delete", "drop_data",
             "set_read_only", "add", "update", "remove"]:
    if need not in fns:
        die(f"c06_guards: fn Collection::{need} not found")

# ------------------------------------------------------------------------------------------
# markers
# ------------------------------------------------------------------------------------------
W = r"\s*"
GATE = r"operation_gate" + W + r"(?:\." + W + r"clone\(\)" + W + r")?\." + W
PATTERNS = [
    ("gateRead", GATE + r"(?:read_owned|read)\(\)" + W + r"\." + W + r"await"),
    ("gateWrite", GATE + r"(?:write_owned|write)\(\)" + W + r"\." + W + r"await"),
    ("leaseQ", r"\bself" + W + r"\." + W + r"mutation_lease\(\)" + W + r"\." + W + r"await" + W + r"\?"),
    ("leaseNoQ", r"\bself" + W + r"\." + W + r"mutation_lease\(\)" + W + r"\." + W + r"await(?!" + W + r"\?)"),
    ("ensureMutable", r"\bself" + W + r"\." + W + r"ensure_mutable\(\)" + W + r"\?"),
    ("ensureMutableChk", r"\bself" + W + r"\." + W + r"ensure_mutable\(\)(?!" + W + r"\?)"),
    ("cancelGuard", r"\bself" + W + r"\." + W + r"cancel_guard\("),
    ("disarm", r"\." + W + r"disarm\(\)"),
    ("poison", r"\bself" + W + r"\." + W + r"poison\("),
    ("beginDelete", r"\bself" + W + r"\." + W + r"begin_delete\(\)"),
    ("lcLoad", r"\blifecycle" + W + r"\." + W + r"load\("),
    ("lcCas", r"\blifecycle" + W + r"\." + W + r"compare_exchange(?:_weak)?\("),
    ("lcStore", r"\blifecycle" + W + r"\." + W + r"(?:store|swap|fetch_\w+)\("),
    ("roStore", r"\bself" + W + r"\." + W + r"read_only" + W + r"\." + W + r"(?:store|swap|fetch_\w+)\("),
    ("awaitPt", r"\." + W + r"await\b"),
]
STORAGE_MUT = r"\bstorage" + W + r"\." + W + r"(create|put|put_bytes|delete|drop_data|drop_prefix|store_metadata|to_writer|stream_writer)" + W + r"(?:::<[^>]*>)?\("
INDEX_MUT = r"(\bindex" + W + r"\." + W + r"(?:flush|compact_index|drop_data)" + W + r"\(|\b(?:BTree|BM25|Hnsw)" + W + r"::" + W + r"(?:new|with_virtual_field)" + W + r"\()"
CALL_RE = re.compile(r"\b(?:self|collection|Self|Collection)" + W + r"(?:\.|::)" + W + r"(\w+)" + W + r"(?:::<[^>]*>)?\(")


def direct_mut(body):
    return [m.start() for m in re.finditer(STORAGE_MUT, body)] + [m.start() for m in re.finditer(INDEX_MUT, body)]


def calls_of(body):
    return [(m.start(), m.group(1)) for m in CALL_RE.finditer(body) if m.group(1) in fns]


# closure: which fns transitively reach a storage mutation
reaches = {n: bool(direct_mut(f["body"])) for n, f in fns.items()}
changed = True
while changed:
    changed = False
    for n, f in fns.items():
        if not reaches[n] and any(reaches[c] for _, c in calls_of(f["body"])):
            reaches[n] = True
            changed = True

# closure: which fns transitively reach `self.poison(..)`
poisons = {n: bool(re.search(r"\bself" + W + r"\." + W + r"poison\(", f["body"])) for n, f in fns.items()}
changed = True
while changed:
    changed = False
    for n, f in fns.items():
        if not poisons[n] and any(poisons[c] for _, c in calls_of(f["body"])):
            poisons[n] = True
            changed = True

# sanity: mutation_lease is "shared gate, then ensure_mutable?"
ml = fns["mutation_lease"]["body"]
mr = re.search(PATTERNS[0][1], ml)
me = re.search(PATTERNS[4][1], ml)
if not (mr and me and mr.start() < me.start()) or re.search(PATTERNS[1][1], ml):
    die("c06_guards: mutation_lease is no longer `operation_gate.read_owned().await; ensure_mutable()?`")


def skeleton(name):
    body = fns[name]["body"]
    marks = []  # (pos, priority, marker)
    taken = []  # spans consumed by gate/lease patterns (their `.await` is not a body await)
    for pr, (mk, pat) in enumerate(PATTERNS):
        for m in re.finditer(pat, body):
            if mk == "awaitPt":
                if any(a <= m.start() < b for a, b in taken):
                    continue
            if mk in ("gateRead", "gateWrite", "leaseQ", "leaseNoQ"):
                taken.append((m.start(), m.end()))
            if mk == "ensureMutableChk" and any(p == m.start() and k == "ensureMutable" for p, _, k in marks):
                continue
            if mk == "leaseQ":
                marks.append((m.start(), pr, "gateRead"))
                marks.append((m.start() + 1, pr, "ensureMutable"))
            elif mk == "leaseNoQ":
                marks.append((m.start(), pr, "gateRead"))
                marks.append((m.start() + 1, pr, "ensureMutableChk"))
            else:
                marks.append((m.start(), pr, mk))
    for p in direct_mut(body):
        marks.append((p, 50, "mut"))
    for p, c in calls_of(body):
        if reaches[c] and c not in ("mutation_lease",):
            marks.append((p, 51, 'call "' + c + '"'))
    marks.sort()
    return [mk for _, _, mk in marks]


# ------------------------------------------------------------------------------------------
# lifecycle edges
# ------------------------------------------------------------------------------------------

def lc_names(text):
    out = []
    for n in re.findall(r"LIFECYCLE_(\w+)", text):
        if n not in consts:
            die(f"c06_guards: unknown lifecycle constant LIFECYCLE_{n}")
        out.append(n)
    return out


edges = []  # (fn, from, to)
for name, f in fns.items():
    body = f["body"]
    for m in re.finditer(r"\blifecycle" + W + r"\." + W + r"compare_exchange(?:_weak)?\(", body):
        e = match_brace(body, m.end() - 1, "(", ")")
        args = [a.strip() for a in body[m.end():e].split(",")]
        if len(args) < 2:
            die(f"c06_guards: cannot parse compare_exchange in {name}")
        to = lc_names(args[1])
        if len(to) != 1:
            die(f"c06_guards: compare_exchange target in {name} is not a LIFECYCLE_ constant: {args[1]!r}")
        frm = lc_names(args[0])
        if not frm:
            # `state` variable: the nearest preceding match arm / matches! guard that names constants
            before = body[:m.start()]
            cands = []
            for g in re.finditer(r"matches!\(\s*" + re.escape(args[0]) + r"\s*,([^)]*)\)", before):
                cands.append((g.start(), lc_names(g.group(1))))
            for g in re.finditer(r"((?:LIFECYCLE_\w+\s*\|?\s*)+)=>", before):
                cands.append((g.start(), lc_names(g.group(1))))
            if not cands:
                die(f"c06_guards: cannot determine the source states of the compare_exchange in {name}")
            frm = max(cands)[1]
        for a in frm:
            edges.append((name, a, to[0]))
    for m in re.finditer(r"\blifecycle" + W + r"\." + W + r"(store|swap|fetch_\w+)\(", body):
        e = match_brace(body, m.end() - 1, "(", ")")
        to = lc_names(body[m.end():e].split(",")[0])
        if len(to) != 1:
            die(f"c06_guards: lifecycle.{m.group(1)} in {name} does not name one LIFECYCLE_ constant")
        for a in STATES:
            edges.append((name, a, to[0]))
# constructors initialise the atomic: `lifecycle: AtomicU8::new(LIFECYCLE_X)`
inits = []
for name, f in fns.items():
    for m in re.finditer(r"\blifecycle" + W + r":" + W + r"AtomicU8" + W + r"::" + W + r"new\(" + W + r"LIFECYCLE_(\w+)", f["body"]):
        inits.append((name, m.group(1)))
if not inits:
    die("c06_guards: no constructor initialises `lifecycle`")

# set_read_only: the refusal condition
sro = fns["set_read_only"]["body"]
m = re.search(r"if\s*!\s*read_only\s*&&\s*\(([^{]*)\)\s*\{", sro)
refuse_inactive = refuse_dbro = False
if m:
    cond = m.group(1)
    refuse_inactive = bool(re.search(r"lifecycle[^|]*!=\s*LIFECYCLE_ACTIVE", cond))
    refuse_dbro = bool(re.search(r"database_read_only", cond))
    # the refusal must return before the store
    seg = sro[m.end():]
    ret = seg.find("return")
    st = seg.find("read_only.store") if "read_only.store" in seg else seg.find("read_only\n")
    if ret == -1 or (st != -1 and st < ret):
        refuse_inactive = refuse_dbro = False

# ensure_mutable: which conditions reject
em = fns["ensure_mutable"]["body"]
em_lc = bool(re.search(r"lifecycle[^;{]*!=\s*LIFECYCLE_ACTIVE", em))
em_dbro = "database_read_only" in em
em_ro = bool(re.search(r"self\s*\.\s*read_only\s*\.\s*load", em))
em_lc_first = em_lc and em.find("lifecycle") < em.find("read_only")

# ------------------------------------------------------------------------------------------
# database.rs: delete_collection / close_collection / open retiring branch
# ------------------------------------------------------------------------------------------
dsrc_full = strip_rust_comments(read_source(repo, "rs/anda_db/src/database.rs"))
m = re.search(r"#\[cfg\(test\)\]\s*mod\s+tests", dsrc_full)
dsrc = dsrc_full[:m.start()] if m else dsrc_full
dfns = fns_of(dsrc, "AndaDB")
for need in ["delete_collection", "close_collection", "open_collection_with_schema", "set_read_only"]:
    if need not in dfns:
        die(f"c06_guards: fn AndaDB::{need} not found")
DB_PATTERNS = [
    ("dbRoCheck", r"\bread_only" + W + r"\." + W + r"load\("),
    ("nameLock", r"\block_collection_name\("),
    ("tombInsert", r"dropping_collections" + W + r"\." + W + r"write\(\)" + W + r"\." + W + r"insert\("),
    ("tombRemove", r"dropping_collections" + W + r"\." + W + r"write\(\)" + W + r"\." + W + r"remove\("),
    ("tombCheck", r"dropping_collections" + W + r"\." + W + r"read\(\)" + W + r"\." + W + r"contains\("),
    ("beginDelete", r"\." + W + r"begin_delete\(\)"),
    ("metaRemove", r"metadata" + W + r"\." + W + r"write\(\)" + W + r"\." + W + r"collections" + W + r"\." + W + r"remove\("),
    ("flushMeta", r"\bflush_metadata\("),
    ("dropData", r"\." + W + r"drop_data\(\)"),
    ("regRemove", r"\bcollections" + W + r"\." + W + r"remove\("),
    ("regInsert", r"\bcollections" + W + r"\." + W + r"insert\("),
    ("activeCheck", r"\." + W + r"is_active_handle\(\)"),
    ("poisonCheck", r"\." + W + r"is_poisoned\(\)"),
    ("drain", r"\." + W + r"drain_operations\(\)"),
    ("collClose", r"\bcollection" + W + r"\." + W + r"close\(\)"),
    ("collOpen", r"\bCollection" + W + r"::" + W + r"open\("),
    ("collFlush", r"\bcollection" + W + r"\." + W + r"flush\("),
    ("roStoreDb", r"\bread_only" + W + r"\." + W + r"store\("),
    ("collSetRo", r"\." + W + r"set_read_only\("),
]


def db_skeleton(name):
    body = dfns[name]["body"]
    marks = []
    for mk, pat in DB_PATTERNS:
        for m in re.finditer(pat, body):
            if mk == "regRemove" and re.search(r"metadata" + W + r"\." + W + r"write\(\)" + W + r"\." + W + r"$", body[:m.start()]):
                continue
            marks.append((m.start(), mk))
    marks.sort()
    return [mk for _, mk in marks]


db_skels = {n: db_skeleton(n) for n in ["delete_collection", "close_collection", "open_collection_with_schema", "set_read_only"]}

# ------------------------------------------------------------------------------------------
# emit
# ------------------------------------------------------------------------------------------

def lname(s):
    return s.lower()


code_defs = "\n".join(f"def lc{n.capitalize()} : Nat := {consts[n]}" for n in STATES)
edge_lines = ",\n  ".join(f'("{fn}", {consts[a]}, {consts[b]})' for fn, a, b in edges)
init_lines = ", ".join(f'("{fn}", {consts[s]})' for fn, s in inits)
db_defs = "\n".join(
    f'def db_{n} : List String := [{", ".join(chr(34) + k + chr(34) for k in sk)}]' for n, sk in db_skels.items())

text1 = f"""/- GENERATED by bin/translate/c06_guards.py from rs/anda_db/src/collection.rs and database.rs — do not edit. -/
namespace AndaVerif.Gen.Lifecycle

{code_defs}

/-- every `compare_exchange` / `store` on `Collection::lifecycle`: (function, from, to).
An unconditional `store` contributes an edge from every state. -/
def edges : List (String × Nat × Nat) := [
  {edge_lines}]

/-- constructors: (function, initial lifecycle value) -/
def inits : List (String × Nat) := [{init_lines}]

/-- `set_read_only(false)` returns without storing when `lifecycle != ACTIVE` / when the database is read-only -/
def setReadOnlyRefusesInactive : Bool := {"true" if refuse_inactive else "false"}
def setReadOnlyRefusesDbReadOnly : Bool := {"true" if refuse_dbro else "false"}
/-- `ensure_mutable` rejects on: lifecycle != ACTIVE (checked first), database_read_only, read_only -/
def ensureMutableChecksLifecycle : Bool := {"true" if em_lc else "false"}
def ensureMutableChecksLifecycleFirst : Bool := {"true" if em_lc_first else "false"}
def ensureMutableChecksDbReadOnly : Bool := {"true" if em_dbro else "false"}
def ensureMutableChecksReadOnly : Bool := {"true" if em_ro else "false"}

/-- effect markers of the database-level functions, in textual order -/
{db_defs}

theorem gen_codes : [lcActive, lcClosing, lcClosed, lcDeleting, lcDeleted, lcPoisoned] = [0, 1, 2, 3, 4, 5] := by decide
theorem gen_no_edge_to_active : edges.all (fun e => e.2.2 != lcActive) = true := by decide
theorem gen_poison_sources :
    (edges.filter (fun e => e.1 == "poison")).all (fun e => (e.2.1 == lcActive || e.2.1 == lcClosing) && e.2.2 == lcPoisoned) = true := by decide
theorem gen_inits_active : inits.all (fun e => e.2 == lcActive) = true := by decide
theorem gen_set_read_only_refuses : (setReadOnlyRefusesInactive && setReadOnlyRefusesDbReadOnly) = true := by decide
theorem gen_ensure_mutable_checks :
    (ensureMutableChecksLifecycle && ensureMutableChecksLifecycleFirst && ensureMutableChecksDbReadOnly && ensureMutableChecksReadOnly) = true := by decide

end AndaVerif.Gen.Lifecycle
"""
write_gen(gen, "Lifecycle.lean", text1)

MARKERS = ["gateRead", "gateWrite", "ensureMutable", "ensureMutableChk", "cancelGuard", "disarm", "poison", "beginDelete",
           "lcLoad", "lcCas", "lcStore", "roStore", "awaitPt", "mut"]
rows = []
for name in fns:
    f = fns[name]
    sk = skeleton(name)
    for k in sk:
        if k not in MARKERS and not k.startswith("call "):
            die(f"c06_guards: internal: unknown marker {k}")
    callees = sorted(set(c for _, c in calls_of(f["body"])))
    rows.append(
        f'  {{ name := "{name}", vis := {f["vis"]}, isAsync := {"true" if f["is_async"] else "false"}, recv := .{f["recv"]},\n'
        f'    reaches := {"true" if reaches[name] else "false"}, direct := {"true" if direct_mut(f["body"]) else "false"}, poisons := {"true" if poisons[name] else "false"},\n'
        f'    skel := [{", ".join("." + k for k in sk)}],\n'
        f'    calls := [{", ".join(chr(34) + c + chr(34) for c in callees)}] }}')
text2 = f"""/- GENERATED by bin/translate/c06_guards.py from rs/anda_db/src/collection.rs — do not edit. -/
namespace AndaVerif.Gen.CollectionGuards

/-- guard-skeleton markers, in the textual order they occur in a function body -/
inductive Mk where
  | gateRead          -- operation_gate.read_owned().await   (also the first half of `mutation_lease().await?`)
  | gateWrite         -- operation_gate.write_owned().await
  | ensureMutable     -- self.ensure_mutable()?              (also the second half of `mutation_lease().await?`)
  | ensureMutableChk  -- self.ensure_mutable() whose result is inspected by hand (no `?`)
  | cancelGuard       -- self.cancel_guard(..)
  | disarm            -- guard.disarm()
  | poison            -- self.poison(..)
  | beginDelete       -- self.begin_delete()
  | lcLoad            -- lifecycle.load(..)
  | lcCas             -- lifecycle.compare_exchange(..)
  | lcStore           -- lifecycle.store(..)
  | roStore           -- self.read_only.store(..)
  | awaitPt           -- any other `.await`
  | mut               -- a storage mutation: storage.put/create/delete/drop_*/store_metadata, index.flush/compact_index/drop_data,
                      -- BTree/BM25/Hnsw::new
  | call (callee : String)  -- a call of a Collection fn that transitively reaches a storage mutation
  deriving DecidableEq, Repr

/-- receiver: none (constructor / associated fn), `&self`, `&mut self`, `self` -/
inductive Recv where
  | none | shared | excl | owned
  deriving DecidableEq, Repr

structure Method where
  name : String
  /-- 0 private, 1 pub(crate)/pub(super), 2 pub -/
  vis : Nat
  isAsync : Bool
  recv : Recv
  /-- transitively reaches a storage mutation through calls inside `impl Collection` -/
  reaches : Bool
  /-- contains a storage mutation call itself -/
  direct : Bool
  /-- transitively reaches `self.poison(..)` -/
  poisons : Bool
  skel : List Mk
  calls : List String

def methods : List Method := [
{(","+chr(10)).join(rows)}]

theorem gen_method_count : methods.length = {len(rows)} := by decide

end AndaVerif.Gen.CollectionGuards
"""
write_gen(gen, "CollectionGuards.lean", text2)
