#!/usr/bin/env python3
"""C06: regenerates from rs/anda_db/src/collection.rs (+ database.rs)

  Gen/Lifecycle.lean         the six LIFECYCLE_* constants; per entry point (a `pub` / `pub(crate)` fn of
                             `impl Collection`, or one of the named anchors `poison`, `begin_delete`) every
                             (from, to) pair of every `compare_exchange` / `store` on `lifecycle` it performs
                             itself or through private helpers; the refusal conditions of `set_read_only` and
                             `ensure_mutable`; the order of the effect markers of `AndaDB::delete_collection`,
                             `close_collection`, `open_collection_with_schema`, `set_read_only`
  Gen/CollectionGuards.lean  for every `pub` / `pub(crate)` fn of `impl Collection`: receiver class and
                             *guard skeleton* (markers in execution = textual order, private helpers inlined).

Keyed on WHAT IS CALLED (field / method / constant names) and on order, never on the names of locals,
temporaries or private helpers:
  * private helpers (no `pub`) are inlined into their callers, recursively, so extracting a block into a helper,
    splitting a function into begin_/finish_ parts or sharing a helper leaves every table unchanged;
    the anchors `ensure_mutable`, `mutation_lease`, `cancel_guard`, `poison`, `begin_delete` are markers, not inlined;
  * the source states of a `compare_exchange(v, TO)` whose first argument is a variable are the lifecycle values
    under which the call site is reachable: a small path-condition analysis over the enclosing / preceding
    `match` arms and `if` / `else` chains (`matches!`, `==`, `!=`, `!`, `&&`, `||`), per lifecycle *load*
    (two loads are never identified); what it cannot decide is over-approximated (more source states);
  * the refusal facts of `set_read_only` / `ensure_mutable` are computed by the same analysis ("for which
    lifecycle value / flags is `read_only.store(..)` / the final `Ok` reachable"), after inlining helpers whose
    body is a single expression;
  * runs of body markers are normalised (a maximal run of mutations / awaits / poison calls / calls is emitted as
    the sorted set of its members): the guard automata depend only on that set.

Strict about meaning: unknown lifecycle constant, a CAS target that is not a constant, a lifecycle mutation
outside `impl Collection`, a missing anchor => error, never a default.
"""
import re, sys
from common import *

repo, gen = sys.argv[1], sys.argv[2]
REL = "rs/anda_db/src/collection.rs"
src = cut_tests(strip_rust_comments(read_source(repo, REL)))

W = r"\s*"
STATES = ["ACTIVE", "CLOSING", "CLOSED", "DELETING", "DELETED", "POISONED"]

# ------------------------------------------------------------------------------------------
# lifecycle constants
# ------------------------------------------------------------------------------------------
consts = {}
for m in re.finditer(r"\bconst\s+LIFECYCLE_(\w+)\s*:\s*u8\s*=\s*(\d+)\s*;", src):
    if m.group(1) in consts:
        die(f"c06_guards: duplicate const LIFECYCLE_{m.group(1)}")
    consts[m.group(1)] = int(m.group(2))
if sorted(consts) != sorted(STATES):
    die(f"c06_guards: lifecycle constants changed: found {sorted(consts)}, expected {sorted(STATES)}")
if len(set(consts.values())) != len(consts):
    die("c06_guards: two lifecycle constants share a value")

# ------------------------------------------------------------------------------------------
# fns of an impl block
# ------------------------------------------------------------------------------------------

def match_brace(text, i, open_c="{", close_c="}"):
    depth = 0
    j = i
    while j < len(text):
        if text[j] == open_c:
            depth += 1
        elif text[j] == close_c:
            depth -= 1
            if depth == 0:
                return j
        j += 1
    die("c06_guards: unbalanced delimiters")


def impl_blocks(text, ty):
    out = []
    for m in re.finditer(r"(?m)^impl\s+" + ty + r"\s*\{", text):
        i = text.index("{", m.start())
        j = match_brace(text, i)
        out.append((i + 1, j))
    if not out:
        die(f"c06_guards: `impl {ty}` not found")
    return out


FN_RE = re.compile(r"(?:(pub)(\s*\(\s*(?:crate|super|in [\w:]+)\s*\))?\s+)?(?:const\s+)?(async\s+)?fn\s+(\w+)")


def fns_of(text, ty):
    fns = {}
    for (a, b) in impl_blocks(text, ty):
        i = a
        depth = 0
        while i < b:
            c = text[i]
            if c == "{":
                depth += 1
                i += 1
                continue
            if c == "}":
                depth -= 1
                i += 1
                continue
            if depth == 0:
                m = FN_RE.match(text, i)
                if m and (i == 0 or not (text[i - 1].isalnum() or text[i - 1] == "_")):
                    name = m.group(4)
                    vis = 2 if (m.group(1) and not m.group(2)) else 1 if m.group(1) else 0
                    is_async = bool(m.group(3))
                    k = m.end()
                    if text[k:k + 1] == "<":
                        d = 0
                        while True:
                            if text[k] == "<":
                                d += 1
                            elif text[k] == ">" and text[k - 1] != "-":
                                d -= 1
                                if d == 0:
                                    k += 1
                                    break
                            k += 1
                    p0 = text.index("(", k)
                    p1 = match_brace(text, p0, "(", ")")
                    params = text[p0 + 1:p1]
                    first = params.split(",")[0].strip()
                    recv = "excl" if re.fullmatch(r"&\s*(?:'\w+\s+)?mut\s+self", first) else \
                        "shared" if re.fullmatch(r"&\s*(?:'\w+\s+)?self", first) else \
                        "owned" if first in ("self", "mut self") else "none"
                    b0 = text.index("{", p1)
                    semi = text.find(";", p1)
                    if semi != -1 and semi < b0:
                        i = semi + 1
                        continue
                    b1 = match_brace(text, b0)
                    if name in fns:
                        die(f"c06_guards: fn {name} defined twice in impl {ty}")
                    fns[name] = dict(name=name, vis=vis, is_async=is_async, recv=recv, params=params,
                                     raw=text[b0 + 1:b1], span=(m.start(), b1 + 1))
                    i = b1 + 1
                    continue
            i += 1
    return fns


fns = fns_of(src, "Collection")
ANCHORS = ["ensure_mutable", "mutation_lease", "cancel_guard", "poison", "begin_delete"]
for need in ANCHORS + ["close", "flush", "drop_data", "set_read_only", "add", "update", "remove"]:
    if need not in fns:
        die(f"c06_guards: fn Collection::{need} not found")

# ------------------------------------------------------------------------------------------
# canonical body: every atomic load becomes a token; a local bound to a lifecycle load becomes a
# reference to *that* load (two loads are never identified)
# ------------------------------------------------------------------------------------------
LOAD_ARGS = r"\(" + W + r"[\w:]*" + W + r"\)"


def canon(body):
    k = [0]

    def lc(_):
        k[0] += 1
        return f"§LC{k[0]}§"
    t = re.sub(r"(?:\bself" + W + r"\." + W + r")?\blifecycle" + W + r"\." + W + r"load" + W + LOAD_ARGS, lc, body)
    t = re.sub(r"(?:\bself" + W + r"\." + W + r")?\bdatabase_read_only" + W + r"\." + W + r"load" + W + LOAD_ARGS, "§DBRO§", t)
    t = re.sub(r"\bself" + W + r"\." + W + r"read_only" + W + r"\." + W + r"load" + W + LOAD_ARGS, "§RO§", t)
    # let X = §LCk§;  =>  later standalone X means "the value of load k"
    pos = 0
    while True:
        m = re.compile(r"\blet\s+(?:mut\s+)?(\w+)\s*(?::\s*u8\s*)?=\s*§LC(\d+)§\s*;").search(t, pos)
        if not m:
            break
        var, idx = m.group(1), m.group(2)
        head, tail = t[:m.end()], t[m.end():]
        # up to a rebinding of the same name
        rb = re.search(r"\blet\s+(?:mut\s+)?" + re.escape(var) + r"\b", tail)
        lim = rb.start() if rb else len(tail)
        seg = re.sub(r"(?<![\w.§])" + re.escape(var) + r"\b(?!\s*[.(:§])", f"§REF{idx}§", tail[:lim])
        t = head + seg + tail[lim:]
        pos = len(head)
    return t


for f in fns.values():
    f["body"] = canon(f["raw"])

# ------------------------------------------------------------------------------------------
# path conditions
# ------------------------------------------------------------------------------------------
TOK = re.compile(r"\s*(§\w+§|matches!|\|\||&&|==|!=|!|\(|\)|,|\||LIFECYCLE_\w+|true\b|false\b|[A-Za-z_]\w*|.)", re.S)


class Cond:
    """3-valued evaluation of a Rust boolean expression over lifecycle loads and the read-only flags.
    env: {"lc": {k: STATE}, "dbro": bool|None, "ro": bool|None, "params": {name: bool}}; None = unknown."""

    def __init__(self, text, env):
        self.toks = [m.group(1) for m in TOK.finditer(text) if m.group(1).strip()]
        self.i = 0
        self.env = env

    def peek(self):
        return self.toks[self.i] if self.i < len(self.toks) else None

    def eat(self):
        t = self.peek()
        self.i += 1
        return t

    def parse(self):
        if self.peek() == "let":
            return None
        v = self.or_()
        if self.peek() is not None:
            return None
        return v if isinstance(v, bool) or v is None else None

    def or_(self):
        v = self.and_()
        while self.peek() == "||":
            self.eat()
            w = self.and_()
            v = True if (v is True or w is True) else False if (v is False and w is False) else None
        return v

    def and_(self):
        v = self.cmp()
        while self.peek() == "&&":
            self.eat()
            w = self.cmp()
            v = False if (v is False or w is False) else True if (v is True and w is True) else None
        return v

    def cmp(self):
        a = self.unary()
        if self.peek() in ("==", "!="):
            op = self.eat()
            b = self.unary()
            if a is None or b is None:
                return None
            return (a == b) if op == "==" else (a != b)
        return a

    def unary(self):
        if self.peek() == "!":
            self.eat()
            v = self.unary()
            return (not v) if isinstance(v, bool) else None
        return self.primary()

    def value_of(self, t):
        m = re.fullmatch(r"§(?:LC|REF)(\d+)§", t)
        if m:
            return self.env.get("lc", {}).get(int(m.group(1)))
        if t == "§DBRO§":
            return self.env.get("dbro")
        if t == "§RO§":
            return self.env.get("ro")
        if t.startswith("LIFECYCLE_"):
            n = t[len("LIFECYCLE_"):]
            if n not in consts:
                die(f"c06_guards: unknown lifecycle constant {t}")
            return n
        if t == "true":
            return True
        if t == "false":
            return False
        return self.env.get("params", {}).get(t)

    def skip_group(self, open_t, close_t):
        depth = 1
        while depth and self.peek() is not None:
            t = self.eat()
            if t == open_t:
                depth += 1
            elif t == close_t:
                depth -= 1

    def primary(self):
        t = self.eat()
        if t is None:
            return None
        if t == "(":
            v = self.or_()
            if self.peek() == ")":
                self.eat()
            else:
                return None
            return self.postfix(v)
        if t == "matches!":
            if self.eat() != "(":
                return None
            subj = self.value_of(self.eat() or "")
            if self.eat() != ",":
                return None
            pats, guard = [], False
            while self.peek() not in (")", None):
                p = self.eat()
                if p == "|":
                    continue
                if p == "if":
                    guard = True
                if p.startswith("LIFECYCLE_"):
                    pats.append(self.value_of(p))
                else:
                    guard = True
            self.eat()
            if subj is None or guard:
                return None
            return subj in pats
        if t in ("{", "["):
            return None
        v = self.value_of(t)
        return self.postfix(v, ident=re.fullmatch(r"[A-Za-z_]\w*", t) is not None and not t.startswith("LIFECYCLE_"))

    def postfix(self, v, ident=False):
        # anything applied to the value (`.x`, `::x`, `(..)`, `?`, `[..]`) makes it unknown
        touched = False
        while self.peek() in (".", ":", "(", "?", "[", "{"):
            t = self.eat()
            touched = True
            if t == "(":
                self.skip_group("(", ")")
            elif t == "[":
                self.skip_group("[", "]")
            elif t == "{":
                self.skip_group("{", "}")
            elif t in (".", ":"):
                while self.peek() == ":":
                    self.eat()
                if self.peek() is not None and re.fullmatch(r"[A-Za-z_]\w*|\d+", self.peek()):
                    self.eat()
        return None if touched else v


def ev(text, env):
    try:
        return Cond(text, env).parse()
    except RecursionError:
        return None


def pat_set(pat):
    """states matched by a match-arm pattern over lifecycle constants; None = cannot tell"""
    if re.search(r"\bif\b", pat):
        return None
    alts = [a.strip() for a in pat.split("|")]
    out = set()
    for a in alts:
        m = re.fullmatch(r"LIFECYCLE_(\w+)", a)
        if not m:
            return None
        if m.group(1) not in consts:
            die(f"c06_guards: unknown lifecycle constant LIFECYCLE_{m.group(1)}")
        out.add(m.group(1))
    return out


def skip_ws(t, i):
    while i < len(t) and t[i].isspace():
        i += 1
    return i


def block_open(t, i, end):
    """first `{` at paren/bracket depth 0 in t[i:end]"""
    d = 0
    while i < end:
        c = t[i]
        if c in "([":
            d += 1
        elif c in ")]":
            d -= 1
        elif c == "{" and d == 0:
            return i
        i += 1
    return -1


def diverges(block):
    """the block's last statement is `return` / `break` / `continue`"""
    b = block.strip()
    if b.endswith(";"):
        b = b[:-1]
    # last statement at brace/paren depth 0
    d, last = 0, 0
    for i, c in enumerate(b):
        if c in "([{":
            d += 1
        elif c in ")]}":
            d -= 1
        elif c == ";" and d == 0:
            last = i + 1
    return re.match(r"\s*(return|break|continue)\b", b[last:]) is not None


def subject_of(scrut):
    m = re.fullmatch(r"\s*§(?:LC|REF)(\d+)§\s*", scrut)
    return int(m.group(1)) if m else None


def match_arms(t, a, b):
    """arms of the match block t[a:b] (a, b inside the braces): [(pattern, body_start, body_end)]"""
    arms, i = [], a
    while True:
        i = skip_ws(t, i)
        if i >= b:
            break
        # pattern up to `=>` at depth 0
        d, j = 0, i
        while j < b:
            c = t[j]
            if c in "([{":
                d += 1
            elif c in ")]}":
                d -= 1
            elif c == "=" and t[j:j + 2] == "=>" and d == 0:
                break
            j += 1
        if j >= b:
            break
        pat = t[i:j].strip()
        k = skip_ws(t, j + 2)
        if t[k] == "{":
            e = match_brace(t, k)
            arms.append((pat, k + 1, e))
            i = skip_ws(t, e + 1)
            if i < b and t[i] == ",":
                i += 1
        else:
            d, e = 0, k
            while e < b:
                c = t[e]
                if c in "([{":
                    d += 1
                elif c in ")]}":
                    d -= 1
                elif c == "," and d == 0:
                    break
                e += 1
            arms.append((pat, k, e))
            i = e + 1
    return arms


KW = re.compile(r"(if|match)\b")


def constraints(t, a, b, pos, out):
    """appends to `out` functions env -> True/False/None that all hold whenever control is at `pos` of t[a:b]"""
    i = a
    while i < b and i <= pos:
        c = t[i]
        if c == "{":
            e = match_brace(t, i)
            if i < pos < e:
                return constraints(t, i + 1, e, pos, out)
            i = e + 1
            continue
        m = KW.match(t, i) if (c in "im" and (i == 0 or not (t[i - 1].isalnum() or t[i - 1] in "_§"))) else None
        if not m:
            i += 1
            continue
        if m.group(1) == "match":
            bo = block_open(t, m.end(), b)
            if bo < 0:
                i = m.end()
                continue
            bc = match_brace(t, bo)
            subj = subject_of(t[m.end():bo])
            arms = match_arms(t, bo + 1, bc)
            sets = [pat_set(p) if p != "_" else "_" for p, _, _ in arms]
            if bo < pos < bc:
                for idx, (pat, s, e) in enumerate(arms):
                    if s <= pos <= e:
                        if subj is not None:
                            earlier = [x for x in sets[:idx]]
                            if sets[idx] == "_":
                                if all(isinstance(x, set) for x in earlier):
                                    excl = set().union(*earlier) if earlier else set()
                                    out.append(lambda env, k=subj, ex=excl: None if env["lc"].get(k) is None else env["lc"][k] not in ex)
                            elif isinstance(sets[idx], set):
                                inc = sets[idx]
                                out.append(lambda env, k=subj, inc=inc: None if env["lc"].get(k) is None else env["lc"][k] in inc)
                        return constraints(t, s, e, pos, out)
                return
            # the whole match is before pos: arms that certainly leave exclude their values
            if subj is not None and bc < pos:
                gone, seen, ok = set(), set(), True
                for (pat, s, e), st in zip(arms, sets):
                    if st is None:
                        ok = False
                        break
                    vals = (set(STATES) - seen) if st == "_" else (st - seen)
                    if diverges(t[s:e]):
                        gone |= vals
                    seen |= set(STATES) if st == "_" else st
                if ok and gone:
                    out.append(lambda env, k=subj, g=gone: None if env["lc"].get(k) is None else env["lc"][k] not in g)
            i = bc + 1
            continue
        # if / else-if / else chain
        branches, j = [], i
        while True:
            cstart = j + 2
            bo = block_open(t, cstart, b)
            if bo < 0:
                branches = None
                break
            bc = match_brace(t, bo)
            branches.append((t[cstart:bo], cstart, bo, bc))
            k = skip_ws(t, bc + 1)
            if t.startswith("else", k) and not (t[k + 4:k + 5].isalnum() or t[k + 4:k + 5] == "_"):
                k2 = skip_ws(t, k + 4)
                if t.startswith("if", k2) and not (t[k2 + 2:k2 + 3].isalnum() or t[k2 + 2:k2 + 3] == "_"):
                    j = k2
                    continue
                if t[k2:k2 + 1] == "{":
                    e2 = match_brace(t, k2)
                    branches.append((None, k2, k2, e2))
                    end = e2 + 1
                    break
            end = bc + 1
            break
        if branches is None:
            i = m.end()
            continue
        if pos < end:
            for idx, (cond, cs, bo, bc) in enumerate(branches):
                if bo < pos < bc or (cond is not None and cs <= pos <= bo):
                    for (c2, _, _, _) in branches[:idx]:
                        out.append(lambda env, c2=c2: (lambda v: None if v is None else not v)(ev(c2, env)))
                    if cond is not None and bo < pos < bc:
                        out.append(lambda env, cond=cond: ev(cond, env))
                        return constraints(t, bo + 1, bc, pos, out)
                    if cond is None:
                        return constraints(t, bo + 1, bc, pos, out)
                    # inside the condition: uniform short-circuit prefix
                    pre = t[cs:pos]
                    if "||" in pre and "&&" not in pre and pre.count("(") == pre.count(")"):
                        for part in pre.split("||")[:-1]:
                            out.append(lambda env, p=part: (lambda v: None if v is None else not v)(ev(p, env)))
                    elif "&&" in pre and "||" not in pre and pre.count("(") == pre.count(")"):
                        for part in pre.split("&&")[:-1]:
                            out.append(lambda env, p=part: ev(p, env))
                    return
            return
        # chain entirely before pos: a branch that certainly leaves excludes its condition
        def stays(env, branches=branches):
            """False when control certainly left through a branch that ends in return/break/continue"""
            may_leave = may_continue = False
            closed = False            # a branch is certainly taken: later ones are unreachable
            for (cond, cs, bo, bc) in branches:
                v = True if cond is None else ev(cond, env)
                if v is False:
                    continue
                if diverges(t[bo + 1:bc]):
                    may_leave = True
                else:
                    may_continue = True
                if v is True:
                    closed = True
                    break
            if not closed:
                may_continue = True   # every condition may be false (no `else`, or not certainly taken)
            if may_leave and not may_continue:
                return False
            return None if may_leave else True
        out.append(stays)
        i = end
    return


def reachable(t, pos, env):
    out = []
    constraints(t, 0, len(t), pos, out)
    full = {"lc": {}, "dbro": None, "ro": None, "params": {}}
    full.update(env)
    return all(c(full) is not False for c in out)


# ------------------------------------------------------------------------------------------
# marks of one (un-inlined) function body
# ------------------------------------------------------------------------------------------
GATE = r"operation_gate" + W + r"(?:\." + W + r"clone\(\)" + W + r")?\." + W
PATTERNS = [
    ("gateRead", GATE + r"(?:read_owned|read)\(\)" + W + r"\." + W + r"await"),
    ("gateWrite", GATE + r"(?:write_owned|write)\(\)" + W + r"\." + W + r"await"),
    ("leaseQ", r"\bself" + W + r"\." + W + r"mutation_lease\(\)" + W + r"\." + W + r"await" + W + r"\?"),
    ("leaseNoQ", r"\bself" + W + r"\." + W + r"mutation_lease\(\)" + W + r"\." + W + r"await(?!" + W + r"\?)"),
    ("ensureMutable", r"\bself" + W + r"\." + W + r"ensure_mutable\(\)" + W + r"\?"),
    ("ensureMutableChk", r"\bself" + W + r"\." + W + r"ensure_mutable\(\)(?!" + W + r"\?)"),
    ("cancelGuard", r"\bself" + W + r"\." + W + r"cancel_guard\("),
    ("disarm", r"\." + W + r"disarm\(\)"),
    ("poison", r"\bself" + W + r"\." + W + r"poison\("),
    ("beginDelete", r"\bself" + W + r"\." + W + r"begin_delete\(\)"),
    ("lcLoad", r"§LC\d+§"),
    ("lcCas", r"\blifecycle" + W + r"\." + W + r"compare_exchange(?:_weak)?\("),
    ("lcStore", r"\blifecycle" + W + r"\." + W + r"(?:store|swap|fetch_\w+)\("),
    ("roStore", r"\bself" + W + r"\." + W + r"read_only" + W + r"\." + W + r"(?:store|swap|fetch_\w+)\("),
    ("awaitPt", r"\." + W + r"await\b"),
]
STORAGE_MUT = r"\bstorage" + W + r"\." + W + r"(create|put|put_bytes|delete|drop_data|drop_prefix|store_metadata|to_writer|stream_writer)" + W + r"(?:::<[^>]*>)?\("
# index mutations: the method that is called, on whatever the index is called locally
INDEX_MUT = r"(\." + W + r"(?:flush|compact_index|drop_data)" + W + r"\(|\b(?:BTree|BM25|Hnsw)" + W + r"::" + W + r"(?:new|with_virtual_field|bootstrap)" + W + r"\()"


def handle_names(f):
    """`self` and locals that are the collection under construction (`let mut c = Self { .. }`)"""
    names = ["self", "Self", "Collection"]
    for m in re.finditer(r"\blet\s+(?:mut\s+)?(\w+)\s*(?::\s*[\w:<>]+\s*)?=\s*(?:Self|Collection)\s*(?:\{|::\s*\w+\s*\()", f["raw"]):
        names.append(m.group(1))
    return names


def call_sites(f, table):
    rx = re.compile(r"(?<![\w.§])(?:" + "|".join(map(re.escape, handle_names(f))) + r")" + W + r"(?:\.|::)" + W + r"(\w+)" + W + r"(?:::<[^>()]*>)?\(")
    out = []
    body = f["body"]
    for m in rx.finditer(body):
        if m.group(1) in table:
            p1 = match_brace(body, m.end() - 1, "(", ")")
            aw = re.match(r"(\s*)\.\s*await\b", body[p1 + 1:])
            out.append((m.start(), m.group(1), (p1 + 1 + len(aw.group(1))) if aw else None))
    return out


def index_mut_sites(f):
    body = f["body"]
    own = re.compile(r"(?<![\w.§])(?:" + "|".join(map(re.escape, handle_names(f))) + r")" + W + r"$")
    out = []
    for m in re.finditer(INDEX_MUT, body):
        if m.group(0).lstrip().startswith("."):
            # `.flush(` etc. on the collection itself is a call of a Collection fn, not an index mutation;
            # `storage.drop_data(` is already a storage mutation
            if own.search(body[:m.start()]):
                continue
        out.append(m.start())
    return out


def direct_mut(f):
    return [m.start() for m in re.finditer(STORAGE_MUT, f["body"])] + index_mut_sites(f)


for f in fns.values():
    f["calls"] = call_sites(f, fns)
    f["muts"] = direct_mut(f)

# closures over the whole call graph (private helpers included)
reaches = {n: bool(f["muts"]) for n, f in fns.items()}
poisons = {n: bool(re.search(PATTERNS[8][1], f["body"])) for n, f in fns.items()}
for table in (reaches, poisons):
    changed = True
    while changed:
        changed = False
        for n, f in fns.items():
            if not table[n] and any(table[c] for _, c, _ in f["calls"]):
                table[n] = True
                changed = True

# mutation_lease: shared gate first, then ensure_mutable whose verdict is propagated
ml = fns["mutation_lease"]["body"]
mr = re.search(PATTERNS[0][1], ml)
me = re.search(r"\bself" + W + r"\." + W + r"ensure_mutable\(\)", ml)
propagated = me and (re.match(W + r"\?", ml[me.end():]) or
                     (re.match(W + r"\." + W + r"(?:map|and|and_then)\(", ml[me.end():]) and not ml.rstrip().endswith(";")
                      and ";" not in ml[me.end():]))
if not (mr and me and mr.start() < me.start() and propagated) or re.search(PATTERNS[1][1], ml):
    die("c06_guards: mutation_lease is no longer `operation_gate.read_owned().await` followed by a propagated `ensure_mutable()`")


def lc_names(text):
    out = []
    for n in re.findall(r"LIFECYCLE_(\w+)", text):
        if n not in consts:
            die(f"c06_guards: unknown lifecycle constant LIFECYCLE_{n}")
        out.append(n)
    return out


def lifecycle_sites(name):
    """[(pos, [(from, to)])] for every compare_exchange / store on `lifecycle` in the fn's own body"""
    body = fns[name]["body"]
    out = []
    for m in re.finditer(PATTERNS[11][1], body):
        e = match_brace(body, m.end() - 1, "(", ")")
        args = [a.strip() for a in body[m.end():e].split(",")]
        if len(args) < 2:
            die(f"c06_guards: cannot parse compare_exchange in {name}")
        to = lc_names(args[1])
        if len(to) != 1:
            die(f"c06_guards: compare_exchange target in {name} is not a LIFECYCLE_ constant: {args[1]!r}")
        frm = lc_names(args[0])
        if not frm:
            k = subject_of(args[0])
            if k is None:
                frm = list(STATES)      # a value the analysis knows nothing about
            else:
                frm = [s for s in STATES if reachable(body, m.start(), {"lc": {k: s}})]
        out.append((m.start(), [(a, to[0]) for a in frm]))
    for m in re.finditer(PATTERNS[12][1], body):
        e = match_brace(body, m.end() - 1, "(", ")")
        to = lc_names(body[m.end():e].split(",")[0])
        if len(to) != 1:
            die(f"c06_guards: lifecycle store in {name} does not name one LIFECYCLE_ constant")
        out.append((m.start(), [(a, to[0]) for a in STATES]))
    return out


def own_marks(name):
    f = fns[name]
    body = f["body"]
    marks = []  # (pos, priority, marker, data)
    taken = []
    for pr, (mk, pat) in enumerate(PATTERNS):
        for m in re.finditer(pat, body):
            if mk == "awaitPt" and any(a <= m.start() < b for a, b in taken):
                continue
            if mk in ("gateRead", "gateWrite", "leaseQ", "leaseNoQ"):
                taken.append((m.start(), m.end()))
            if mk == "ensureMutableChk" and any(p == m.start() and k == "ensureMutable" for p, _, k, _ in marks):
                continue
            if mk == "leaseQ":
                marks.append((m.start(), pr, "gateRead", None))
                marks.append((m.start() + 1, pr, "ensureMutable", None))
            elif mk == "leaseNoQ":
                marks.append((m.start(), pr, "gateRead", None))
                marks.append((m.start() + 1, pr, "ensureMutableChk", None))
            elif mk in ("lcCas", "lcStore"):
                marks.append((m.start(), pr, mk, None))
            else:
                marks.append((m.start(), pr, mk, None))
    for p in f["muts"]:
        marks.append((p, 50, "mut", None))
    for p, c, aw in f["calls"]:
        if c in ("mutation_lease", "ensure_mutable", "cancel_guard", "poison", "begin_delete"):
            continue
        marks.append((p, 51, "CALL", (c, aw)))
    for p, e in lifecycle_sites(name):
        marks.append((p, 52, "EDGES", e))
    marks.sort(key=lambda x: (x[0], x[1]))
    return marks


OWN = {n: own_marks(n) for n in fns}


def inlinable(c):
    return fns[c]["vis"] == 0 and c not in ANCHORS


def walk(name, stack=()):
    """events of `name` in textual order, private helpers inlined: ('mk', marker) | ('edges', [(from,to)])"""
    out = []
    skip = set()
    for pos, _, mk, data in OWN[name]:
        if mk == "CALL":
            c, aw = data
            if inlinable(c) and c not in stack and len(stack) < 12:
                out.extend(walk(c, stack + (name,)))
                if aw is not None and fns[c]["is_async"]:
                    skip.add(aw)          # the `.await` of an inlined async helper is not a suspension point of its own
            elif reaches[c]:
                out.append(("mk", 'call "' + c + '"'))
        elif mk == "EDGES":
            out.append(("edges", data))
        elif mk == "awaitPt" and pos in skip:
            continue
        else:
            out.append(("mk", mk))
    return out


BODY_ORDER = ["mut", "awaitPt", "poison"]


def normalise(sk):
    """maximal runs of body markers -> sorted set; consecutive lifecycle loads -> one"""
    out, run = [], []

    def flush():
        if run:
            s = set(run)
            out.extend([k for k in BODY_ORDER if k in s] + sorted(k for k in s if k.startswith("call ")))
            run.clear()
    for k in sk:
        if k in BODY_ORDER or k.startswith("call "):
            run.append(k)
        else:
            flush()
            if k == "lcLoad" and out and out[-1] == "lcLoad":
                continue
            out.append(k)
    flush()
    return out


def skeleton(name):
    return normalise([d for k, d in walk(name) if k == "mk"])


# ------------------------------------------------------------------------------------------
# lifecycle edges, attributed to entry points
# ------------------------------------------------------------------------------------------
owners = [n for n, f in fns.items() if f["vis"] >= 1 or n in ANCHORS]
edges, covered = [], set()


def covered_by(name, stack=()):
    covered.add(name)
    for _, _, mk, data in OWN[name]:
        if mk == "CALL" and inlinable(data[0]) and data[0] not in stack:
            covered_by(data[0], stack + (name,))


for n in owners:
    seen = set()
    for k, d in walk(n):
        if k == "edges":
            for a, b in d:
                if (a, b) not in seen:
                    seen.add((a, b))
                    edges.append((n, a, b))
    covered_by(n)
for n in fns:
    if any(mk == "EDGES" for _, _, mk, _ in OWN[n]) and n not in covered:
        die(f"c06_guards: fn {n} changes `lifecycle` but is not reachable from any entry point of impl Collection")
# nothing outside `impl Collection` may touch the atomic
outside = src
for f in sorted(fns.values(), key=lambda f: -f["span"][0]):
    outside = outside[:f["span"][0]] + " " * (f["span"][1] - f["span"][0]) + outside[f["span"][1]:]
if re.search(r"\blifecycle" + W + r"\." + W + r"(?:compare_exchange|store|swap|fetch_\w+)", outside):
    die("c06_guards: `lifecycle` is changed outside the fns of impl Collection")
private_writers = [n for n, f in fns.items() if f["vis"] == 0 and reaches[n]]
called_outside = sorted(set(m.group(1) for m in re.finditer(r"\." + W + r"(\w+)" + W + r"\(", outside) if m.group(1) in private_writers))

# close: after the exclusive gate, the guarded flush is reachable only under these values of the re-checked lifecycle
def first_guard_after_gate(name):
    """(position of the gate, position of the first cancel_guard — own or through an inlined helper — after it)"""
    gate = None
    for pos, _, mk, data in OWN[name]:
        if mk == "gateWrite" and gate is None:
            gate = pos
        elif gate is not None and (mk == "cancelGuard" or (mk == "CALL" and inlinable(data[0]) and
                                                            any(k == "mk" and d == "cancelGuard" for k, d in walk(data[0])))):
            return gate, pos
    die(f"c06_guards: {name} no longer arms a cancel guard after taking the exclusive gate")


g0, g1 = first_guard_after_gate("close")
cbody = fns["close"]["body"]
loads = [m for m in re.finditer(r"§LC(\d+)§", cbody) if g0 < m.start() < g1]
if loads:
    kk = int(loads[-1].group(1))
    close_flush_states = [s for s in STATES if reachable(cbody, g1, {"lc": {kk: s}})]
else:
    close_flush_states = list(STATES)      # no re-check after the drain

# ------------------------------------------------------------------------------------------
# other writers under the collection prefix: the index modules and the rest of the crate
# ------------------------------------------------------------------------------------------
WRITE_CALL = r"\." + W + r"(?:put|put_bytes|create|delete|drop_prefix|drop_data|store_metadata|to_writer|stream_writer)" + W + r"(?:::<[^>()]*>)?\("
# the index methods the skeleton extractor counts as a storage mutation when `impl Collection` calls them
INDEX_MUT_NAMES = ["flush", "compact_index", "drop_data", "new", "with_virtual_field", "bootstrap"]
INDEX_FILES = [("rs/anda_db/src/index/btree.rs", "BTree"), ("rs/anda_db/src/index/bm25.rs", "BM25"), ("rs/anda_db/src/index/hnsw.rs", "Hnsw")]


def all_fns(text):
    """every fn with a body in the file: [(impl type | "", name, vis, body)]"""
    out = []
    impls = []
    for m in re.finditer(r"(?m)^impl\b[^{;]*\{", text):
        head = m.group(0)
        ty = re.findall(r"([A-Za-z_]\w*)\s*(?:<[^{]*?>)?\s*(?:where\b[^{]*)?\{$", head.strip())
        tname = re.search(r"(?:\bfor\s+)?&?\s*([A-Za-z_]\w*)\s*(?:<[^<>]*(?:<[^<>]*>[^<>]*)*>)?\s*(?:where\b[\s\S]*)?\{$", head)
        b = match_brace(text, m.end() - 1)
        impls.append((m.end(), b, tname.group(1) if tname else ""))
    for m in FN_RE.finditer(text):
        if m.start() > 0 and (text[m.start() - 1].isalnum() or text[m.start() - 1] == "_"):
            continue
        k = text.find("(", m.end())
        if k < 0:
            continue
        p1 = match_brace(text, k, "(", ")")
        b0 = text.find("{", p1)
        semi = text.find(";", p1)
        if b0 < 0 or (semi != -1 and semi < b0):
            continue
        b1 = match_brace(text, b0)
        ty = ""
        for a, b, t in impls:
            if a <= m.start() < b:
                ty = t
        vis = 2 if (m.group(1) and not m.group(2)) else 1 if m.group(1) else 0
        out.append((ty, m.group(4), vis, text[b0 + 1:b1]))
    return out


index_writers = []
for rel, ty in INDEX_FILES:
    t = cut_tests(strip_rust_comments(read_source(repo, rel)))
    fs = all_fns(t)
    if not any(x[0] == ty for x in fs):
        die(f"c06_guards: no fn of impl {ty} found in {rel}")
    names = {x[1] for x in fs}
    wr = {x[1] for x in fs if re.search(WRITE_CALL, x[3])}
    calls = {}
    for _, n, _, body in fs:
        # `.name(` and bare `name(` resolve by name; `Path::name(` only when Path is `Self` or a type implemented in this file
        tys = {x[0] for x in fs if x[0]} | {"Self"}
        for q, c in re.findall(r"(?:\b([A-Za-z_]\w*)\s*(?:::\s*<[^;{}]*?>\s*)?::\s*)?\b([A-Za-z_]\w*)\s*(?:::<[^>()]*>)?\(", body):
            if c in names and c != n and (not q or q in tys):
                calls.setdefault(n, set()).add(c)
    ch = True
    while ch:
        ch = False
        for n, cs in calls.items():
            if n not in wr and cs & wr:
                wr.add(n)
                ch = True
    for tyx, n, vis, _ in fs:
        if tyx == ty and vis >= 1 and n in wr and (ty, n) not in index_writers:
            index_writers.append((ty, n))
if not index_writers:
    die("c06_guards: no index method reaches a storage write — the extraction is broken")

# files of the crate that are none of: storage.rs (the implementation), collection.rs / database.rs (skeletons above),
# the three index modules (table above)
import os
KNOWN = {"storage.rs", "collection.rs", "database.rs", "index/btree.rs", "index/bm25.rs", "index/hnsw.rs"}
elsewhere = []
root = os.path.join(repo, "rs/anda_db/src")
for dp, _, files in sorted(os.walk(root)):
    for fn in sorted(files):
        if not fn.endswith(".rs"):
            continue
        rel = os.path.relpath(os.path.join(dp, fn), root)
        if rel in KNOWN:
            continue
        t = cut_tests(strip_rust_comments(open(os.path.join(dp, fn), encoding="utf-8").read()))
        if re.search(r"\bstorage\b[^;{}]*?" + WRITE_CALL, t) or re.search(r"\.\s*(?:put_opts|put_multipart\w*|copy\w*|rename\w*)\s*\(", t) \
                or re.search(r"\bobject_store\b[^;{}]*?\.\s*(?:put|delete)\w*\s*\(", t):
            elsewhere.append(rel)
# collection.rs: write sites outside the fns of impl Collection
outside_writes = len(re.findall(STORAGE_MUT, outside)) + len([m for m in re.finditer(INDEX_MUT, outside) if not m.group(0).lstrip().startswith(".")]) \
    + len(re.findall(r"\bindex\w*" + W + r"\." + W + r"(?:flush|compact_index|drop_data)" + W + r"\(", outside))
# background tasks: nothing in the crate may detach a writer from the future that holds the lease
spawns = []
for dp, _, files in sorted(os.walk(root)):
    for fn in sorted(files):
        if fn.endswith(".rs"):
            t = cut_tests(strip_rust_comments(open(os.path.join(dp, fn), encoding="utf-8").read()))
            if re.search(r"\b(?:tokio\s*::\s*)?(?:task\s*::\s*)?spawn(?:_blocking|_local)?\s*\(|\bthread\s*::\s*spawn\s*\(", t):
                spawns.append(os.path.relpath(os.path.join(dp, fn), root))

inits = []
for name, f in fns.items():
    for m in re.finditer(r"\blifecycle" + W + r":" + W + r"AtomicU8" + W + r"::" + W + r"new\(" + W + r"LIFECYCLE_(\w+)", f["body"]):
        inits.append((name, m.group(1)))
if not inits:
    die("c06_guards: no constructor initialises `lifecycle`")

# ------------------------------------------------------------------------------------------
# refusal conditions of set_read_only / ensure_mutable
# ------------------------------------------------------------------------------------------

def expr_inlined(name, stack=()):
    """raw body with every call of a Collection fn whose body is a single expression replaced by `( body )`"""
    f = fns[name]
    body = f["raw"]
    rx = re.compile(r"(?<![\w.])(?:self|Self|Collection)" + W + r"(?:\.|::)" + W + r"(\w+)" + W + r"\(")
    out, i = [], 0
    while True:
        m = rx.search(body, i)
        if not m:
            out.append(body[i:])
            break
        c = m.group(1)
        p1 = match_brace(body, m.end() - 1, "(", ")")
        if c in fns and c != name and c not in stack and len(stack) < 6 \
                and not re.search(r"[;{]|\b(?:return|let)\b", fns[c]["raw"]):
            out.append(body[i:m.start()] + "(" + expr_inlined(c, stack + (name,)) + ")")
        else:
            out.append(body[i:p1 + 1])
        i = p1 + 1
    return "".join(out)


def one_lifecycle_load(t, who):
    ks = set(re.findall(r"§LC(\d+)§", t))
    if len(ks) != 1:
        die(f"c06_guards: {who} reads `lifecycle` {len(ks)} times; expected exactly one load")
    return int(ks.pop())


# set_read_only(flag): with flag = false, `self.read_only.store(..)` is reachable only on ACTIVE & db writable
sro = canon(expr_inlined("set_read_only"))
pm = None
for prm in fns["set_read_only"]["params"].split(","):
    pm = pm or re.fullmatch(r"\s*(?:mut\s+)?(\w+)\s*:\s*bool\s*", prm)
if not pm:
    die("c06_guards: set_read_only no longer takes a bool")
flag = pm.group(1)
k_sro = one_lifecycle_load(sro, "set_read_only")
stores = [m.start() for m in re.finditer(PATTERNS[13][1], sro)]
if not stores:
    die("c06_guards: set_read_only no longer stores `read_only`")


def sro_reach(fl, s, d):
    return any(reachable(sro, p, {"lc": {k_sro: s}, "dbro": d, "params": {flag: fl}}) for p in stores)


refuse_inactive = all(not sro_reach(False, s, d) for s in STATES if s != "ACTIVE" for d in (True, False))
refuse_dbro = all(not sro_reach(False, s, True) for s in STATES)
if not sro_reach(True, "CLOSED", True) or not sro_reach(False, "ACTIVE", False):
    die("c06_guards: set_read_only never stores the flag")

# ensure_mutable: the read-only flags are only consulted on ACTIVE; `Ok` needs both flags clear
em = canon(expr_inlined("ensure_mutable"))
k_em = one_lifecycle_load(em, "ensure_mutable")
flags = [m.start() for m in re.finditer(r"§(?:DBRO|RO)§", em)]
oks = [m.start() for m in re.finditer(r"\bOk\(", em)]
if not oks:
    die("c06_guards: ensure_mutable has no `Ok(..)`")
em_lc = bool(flags) and all(not reachable(em, flags[0], {"lc": {k_em: s}}) for s in STATES if s != "ACTIVE") \
    and reachable(em, flags[0], {"lc": {k_em: "ACTIVE"}})
em_lc_ok = all(not reachable(em, p, {"lc": {k_em: s}, "dbro": False, "ro": False}) for p in oks for s in STATES if s != "ACTIVE")
em_lc_first = em_lc and em_lc_ok and (not flags or em.find(f"§LC{k_em}§") < flags[0])
em_dbro = "§DBRO§" in em and all(not reachable(em, p, {"lc": {k_em: "ACTIVE"}, "dbro": True, "ro": False}) for p in oks)
em_ro = "§RO§" in em and all(not reachable(em, p, {"lc": {k_em: "ACTIVE"}, "dbro": False, "ro": True}) for p in oks)
if not any(reachable(em, p, {"lc": {k_em: "ACTIVE"}, "dbro": False, "ro": False}) for p in oks):
    die("c06_guards: ensure_mutable never returns Ok")

# ------------------------------------------------------------------------------------------
# database.rs: delete_collection / close_collection / open_collection_with_schema / set_read_only
# ------------------------------------------------------------------------------------------
dsrc = cut_tests(strip_rust_comments(read_source(repo, "rs/anda_db/src/database.rs")))
dfns = fns_of(dsrc, "AndaDB")
DB_FNS = ["delete_collection", "close_collection", "open_collection_with_schema", "set_read_only"]
DB_ANCHORS = ["lock_collection_name", "flush_metadata"]
for need in DB_FNS + DB_ANCHORS:
    if need not in dfns:
        die(f"c06_guards: fn AndaDB::{need} not found")


def db_inlined(name, stack=()):
    """body with every call of a private, non-anchor fn of impl AndaDB textually inlined"""
    body = dfns[name]["raw"]
    rx = re.compile(r"(?<![\w.])(?:self|Self|AndaDB)" + W + r"(?:\.|::)" + W + r"(\w+)" + W + r"(?:::<[^>()]*>)?\(")
    out, i = [], 0
    while True:
        m = rx.search(body, i)
        if not m:
            out.append(body[i:])
            break
        c = m.group(1)
        p1 = match_brace(body, m.end() - 1, "(", ")")
        if c in dfns and dfns[c]["vis"] == 0 and c not in DB_ANCHORS and c != name and c not in stack and len(stack) < 8:
            out.append(body[i:m.start()] + "{ " + body[m.end():p1] + " ; " + db_inlined(c, stack + (name,)) + " }")
        else:
            out.append(body[i:p1 + 1])
        i = p1 + 1
    return "".join(out)


def db_skeleton(name):
    body = db_inlined(name)
    # locals that hold the write guard of the handle registry
    reg = [r"(?<!\w)collections" + W + r"\." + W + r"write\(\)"]
    for m in re.finditer(r"\blet\s+(?:mut\s+)?(\w+)\s*=\s*(?:self\s*\.\s*)?(?:inner\s*\.\s*)?(?<!\w)collections\s*\.\s*write\(\)", body):
        reg.append(r"(?<![\w.])" + re.escape(m.group(1)))
    REG = r"(?:" + "|".join(reg) + r")"
    pats = [
        ("dbRoCheck", r"\bread_only" + W + r"\." + W + r"load\("),
        ("nameLock", r"\block_collection_name\("),
        ("tombInsert", r"dropping_collections" + W + r"\." + W + r"write\(\)" + W + r"\." + W + r"insert\("),
        ("tombRemove", r"dropping_collections" + W + r"\." + W + r"write\(\)" + W + r"\." + W + r"remove\("),
        ("tombCheck", r"dropping_collections" + W + r"\." + W + r"read\(\)" + W + r"\." + W + r"contains\("),
        ("beginDelete", r"\." + W + r"begin_delete\(\)"),
        ("metaRemove", r"metadata" + W + r"\." + W + r"write\(\)" + W + r"\." + W + r"collections" + W + r"\." + W + r"remove\("),
        ("flushMeta", r"\bflush_metadata\("),
        ("dropData", r"\." + W + r"drop_data\(\)"),
        ("regRemove", REG + W + r"\." + W + r"remove\("),
        ("regInsert", REG + W + r"\." + W + r"insert\("),
        ("activeCheck", r"\." + W + r"is_active_handle\(\)"),
        ("poisonCheck", r"\." + W + r"is_poisoned\(\)"),
        ("drain", r"\." + W + r"drain_operations\(\)"),
        ("collClose", r"(?<!\bself)" + r"\." + W + r"close\(\)" + W + r"\." + W + r"await"),
        ("collOpen", r"\bCollection" + W + r"::" + W + r"open\("),
        ("collFlush", r"(?<!\bself)" + r"\." + W + r"flush\("),
        ("roStoreDb", r"\bread_only" + W + r"\." + W + r"store\("),
        ("collSetRo", r"(?<!\bself)\." + W + r"set_read_only\("),
    ]
    marks = []
    for mk, pat in pats:
        for m in re.finditer(pat, body):
            marks.append((m.start(), mk))
    marks.sort()
    return [mk for _, mk in marks]


db_skels = {n: db_skeleton(n) for n in DB_FNS}

# ------------------------------------------------------------------------------------------
# emit
# ------------------------------------------------------------------------------------------
code_defs = "\n".join(f"def lc{n.capitalize()} : Nat := {consts[n]}" for n in STATES)
edge_lines = ",\n  ".join(f'("{fn}", {consts[a]}, {consts[b]})' for fn, a, b in edges)
init_lines = ", ".join(f'("{fn}", {consts[s]})' for fn, s in inits)
db_defs = "\n".join(
    f'def db_{n} : List String := [{", ".join(chr(34) + k + chr(34) for k in sk)}]' for n, sk in db_skels.items())


def B(x):
    return "true" if x else "false"


text1 = f"""/- GENERATED by bin/translate/c06_guards.py from rs/anda_db/src/collection.rs and database.rs — do not edit. -/
namespace AndaVerif.Gen.Lifecycle

{code_defs}

/-- every `compare_exchange` / `store` on `Collection::lifecycle`: (entry point, from, to); private helpers are
attributed to the entry points that reach them. An unconditional `store` contributes an edge from every state;
a `compare_exchange(v, TO)` one from every value `v` can have at the call. -/
def edges : List (String × Nat × Nat) := [
  {edge_lines}]

/-- constructors: (function, initial lifecycle value) -/
def inits : List (String × Nat) := [{init_lines}]

/-- `set_read_only(false)` does not store when `lifecycle != ACTIVE` / when the database is read-only -/
def setReadOnlyRefusesInactive : Bool := {B(refuse_inactive)}
def setReadOnlyRefusesDbReadOnly : Bool := {B(refuse_dbro)}
/-- `ensure_mutable` rejects on: lifecycle != ACTIVE (decided before a flag is read), database_read_only, read_only -/
def ensureMutableChecksLifecycle : Bool := {B(em_lc and em_lc_ok)}
def ensureMutableChecksLifecycleFirst : Bool := {B(em_lc_first)}
def ensureMutableChecksDbReadOnly : Bool := {B(em_dbro)}
def ensureMutableChecksReadOnly : Bool := {B(em_ro)}

/-- `close`: values of the lifecycle re-read after the exclusive gate under which the guarded flush is reached -/
def closeFlushStates : List Nat := [{", ".join(str(consts[x]) for x in close_flush_states)}]

/-- effect markers of the database-level functions, in textual order (private helpers inlined) -/
{db_defs}

theorem gen_codes : [lcActive, lcClosing, lcClosed, lcDeleting, lcDeleted, lcPoisoned] = [0, 1, 2, 3, 4, 5] := by decide
theorem gen_no_edge_to_active : edges.all (fun e => e.2.2 != lcActive) = true := by decide
theorem gen_poison_sources :
    (edges.filter (fun e => e.1 == "poison")).all (fun e => (e.2.1 == lcActive || e.2.1 == lcClosing) && e.2.2 == lcPoisoned) = true := by decide
theorem gen_close_flushes_only_closing : closeFlushStates = [lcClosing] := by decide
theorem gen_inits_active : inits.all (fun e => e.2 == lcActive) = true := by decide
theorem gen_set_read_only_refuses : (setReadOnlyRefusesInactive && setReadOnlyRefusesDbReadOnly) = true := by decide
theorem gen_ensure_mutable_checks :
    (ensureMutableChecksLifecycle && ensureMutableChecksLifecycleFirst && ensureMutableChecksDbReadOnly && ensureMutableChecksReadOnly) = true := by decide

end AndaVerif.Gen.Lifecycle
"""
write_gen(gen, "Lifecycle.lean", text1)

MARKERS = ["gateRead", "gateWrite", "ensureMutable", "ensureMutableChk", "cancelGuard", "disarm", "poison", "beginDelete",
           "lcLoad", "lcCas", "lcStore", "roStore", "awaitPt", "mut"]
rows = []
for name in fns:
    f = fns[name]
    if f["vis"] == 0:
        continue
    sk = skeleton(name)
    for k in sk:
        if k not in MARKERS and not k.startswith("call "):
            die(f"c06_guards: internal: unknown marker {k}")
    rows.append(
        f'  {{ name := "{name}", vis := {f["vis"]}, isAsync := {B(f["is_async"])}, recv := .{f["recv"]},\n'
        f'    reaches := {B(reaches[name])}, poisons := {B(poisons[name])},\n'
        f'    skel := [{", ".join("." + k for k in sk)}] }}')
text2 = f"""/- GENERATED by bin/translate/c06_guards.py from rs/anda_db/src/collection.rs — do not edit. -/
namespace AndaVerif.Gen.CollectionGuards

/-- guard-skeleton markers, in the order they are executed (= textual order, private helpers inlined) -/
inductive Mk where
  | gateRead          -- operation_gate.read_owned().await   (also the first half of `mutation_lease().await?`)
  | gateWrite         -- operation_gate.write_owned().await
  | ensureMutable     -- self.ensure_mutable()?              (also the second half of `mutation_lease().await?`)
  | ensureMutableChk  -- self.ensure_mutable() whose result is inspected by hand (no `?`)
  | cancelGuard       -- self.cancel_guard(..)
  | disarm            -- guard.disarm()
  | poison            -- self.poison(..)
  | beginDelete       -- self.begin_delete()
  | lcLoad            -- lifecycle.load(..)
  | lcCas             -- lifecycle.compare_exchange(..)
  | lcStore           -- lifecycle.store(..)
  | roStore           -- self.read_only.store(..)
  | awaitPt           -- any other `.await`
  | mut               -- a storage mutation: storage.put/create/delete/drop_*/store_metadata, <index>.flush/compact_index/drop_data,
                      -- BTree/BM25/Hnsw::new / ::bootstrap (Hnsw::bootstrap purges orphan node blobs)
  | call (callee : String)  -- a call of a `pub` / `pub(crate)` Collection fn that transitively reaches a storage mutation
  deriving DecidableEq, Repr

/-- receiver: none (constructor / associated fn), `&self`, `&mut self`, `self` -/
inductive Recv where
  | none | shared | excl | owned
  deriving DecidableEq, Repr

/-- one `pub` / `pub(crate)` fn of `impl Collection`. Private fns have no row: their bodies are inlined into the
skeletons of their callers. A maximal run of body markers (`mut`, `awaitPt`, `poison`, `call`) is given as the
sorted set of its members. -/
structure Method where
  name : String
  /-- 1 pub(crate)/pub(super), 2 pub -/
  vis : Nat
  isAsync : Bool
  recv : Recv
  /-- transitively reaches a storage mutation through calls inside `impl Collection` -/
  reaches : Bool
  /-- transitively reaches `self.poison(..)` -/
  poisons : Bool
  skel : List Mk

def methods : List Method := [
{(","+chr(10)).join(rows)}]

/-- private fns of `impl Collection` that reach a storage mutation and are called (by name) from code outside
the fns of `impl Collection` in the same file — where no skeleton covers the call -/
def privateWritersCalledOutside : List String := [{", ".join(chr(34) + c + chr(34) for c in called_outside)}]

theorem gen_no_private_writer_called_outside : privateWritersCalledOutside = [] := by decide

/-- index modules (index/btree.rs, bm25.rs, hnsw.rs): every `pub` / `pub(crate)` fn of `impl BTree` / `BM25` / `Hnsw`
that transitively (calls resolved by name inside the file, closures included) reaches a `Storage` write -/
def indexWriters : List (String × String) := [{", ".join("(" + chr(34) + a + chr(34) + ", " + chr(34) + b + chr(34) + ")" for a, b in index_writers)}]
/-- the index methods the skeleton extractor counts as a storage mutation (`mut`) when `impl Collection` calls them
(`<index>.flush(..)`, `.compact_index()`, `.drop_data()`, `BTree/BM25/Hnsw::new(..)`, `::with_virtual_field(..)`, `::bootstrap(..)`) -/
def indexMutMarkers : List String := [{", ".join(chr(34) + n + chr(34) for n in INDEX_MUT_NAMES)}]
/-- source files of the crate, other than storage.rs itself, collection.rs, database.rs and the three index modules,
that call a `Storage` write or the object store directly -/
def storageWriteSitesElsewhere : List String := [{", ".join(chr(34) + n + chr(34) for n in elsewhere)}]
/-- storage / index write call sites in collection.rs that are not inside a fn of `impl Collection` -/
def writeSitesOutsideImplCollection : Nat := {outside_writes}
/-- source files of the crate that detach work with `spawn` (a writer outside the future that holds the lease) -/
def filesThatSpawn : List String := [{", ".join(chr(34) + n + chr(34) for n in spawns)}]

theorem gen_index_writers_marked : indexWriters.all (fun w => indexMutMarkers.contains w.2) = true := by decide
theorem gen_no_other_storage_writer :
    storageWriteSitesElsewhere = [] ∧ writeSitesOutsideImplCollection = 0 ∧ filesThatSpawn = [] := by decide

end AndaVerif.Gen.CollectionGuards
"""
write_gen(gen, "CollectionGuards.lean", text2)
