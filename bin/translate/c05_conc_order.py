#!/usr/bin/env python3
"""C05: regenerates, from the working tree, the *order skeleton* of the concurrency mechanisms the
model `Model/ConcColl.lean` hard-codes: for each function the sequence in which its lock
acquisitions, lifecycle checks, backend calls and in-memory registrations appear in the source
(first occurrence of each marker, by position, comment-stripped, whitespace-tolerant).
The generated `def`s carry what the source says now; the `theorem gen_…` lines state the order
the model implements, so a reordering in the source (lifecycle check before the gate, bitmap
registration before the object exists, doc lock dropped before the PUT, unconditioned PUT, cache
insert without the generation re-check, …) makes the kernel reject the generated file."""
import re, sys
from common import *

repo, gen = sys.argv[1], sys.argv[2]
col = cut_tests(strip_rust_comments(read_source(repo, "rs/anda_db/src/collection.rs")))
sto = cut_tests(strip_rust_comments(read_source(repo, "rs/anda_db/src/storage.rs")))

W = r"\s*"
ARGS = r"(?:[^()]|\([^()]*\))*"          # an argument list with one level of nested parentheses


def rx(s):
    """'a . b ( x )' -> whitespace tolerant regex (tokens separated by single spaces)"""
    return W.join(re.escape(tok) for tok in s.split(" "))


def call(name):
    """a call of a function of the same file: as written, or as `inlined_body` left it"""
    return [r"\b" + re.escape(name) + W + r"(?:::<[^>()]*>)?" + W + r"\(", r"/\*" + re.escape(name) + r"\*/"]


def split_top(text):
    """split at top-level commas"""
    out, depth, cur = [], 0, []
    for ch in text:
        if ch in "([{<":
            depth += 1
        elif ch in ")]}>":
            depth -= 1
        if ch == "," and depth <= 0:
            out.append("".join(cur)); cur = []
        else:
            cur.append(ch)
    if "".join(cur).strip():
        out.append("".join(cur))
    return [x.strip() for x in out]


def fn_params(src, name):
    """names of the non-self parameters of `fn name` (simple `x: T` / `mut x: T` patterns), in order"""
    m = re.search(r"\bfn\s+" + re.escape(name) + r"\b\s*(?:<[^{;]*?>)?\s*\(", src)
    if not m:
        return []
    i, depth = m.end(), 1
    while i < len(src) and depth:
        depth += src[i] in "([{"
        depth -= src[i] in ")]}"
        i += 1
    ps = []
    for part in split_top(src[m.end():i - 1]):
        if re.fullmatch(r"&?\s*(?:'\w+\s+)?(?:mut\s+)?self", part):
            continue
        mm = re.match(r"(?:mut\s+)?(\w+)\s*:", part)
        ps.append(mm.group(1) if mm else None)
    return ps


def inline(src, name, depth=0, stack=()):
    """Like common.inlined_body, and additionally renames the callee's parameters to the caller's
    argument when that argument is a plain (possibly borrowed) identifier — so a local handed to an
    extracted helper keeps ONE name across the inlined text."""
    body = try_fn_body(src, name)
    if body is None:
        die(f"translator: fn {name} not found")
    if depth >= 5:
        return body
    # trait-method names (`impl Drop for …` etc. in the same file) are std calls when written bare: never inlined
    names = set(all_fn_names(src)) - {name} - set(stack) - {"drop", "new", "default", "from", "into", "fmt", "clone", "eq", "hash", "cmp"}
    out, i = [], 0
    pat = re.compile(r"(?:\bself\s*\.\s*|\bSelf::\s*|(?<![\w.:]))([A-Za-z_][A-Za-z0-9_]*)\s*(?:::<[^>()]*>)?\(")
    while True:
        m = pat.search(body, i)
        if not m:
            out.append(body[i:]); break
        callee = m.group(1)
        if callee not in names or body[max(0, m.start() - 3):m.start()].strip().endswith("fn"):
            out.append(body[i:m.end()]); i = m.end(); continue
        j, d = m.end(), 1
        while j < len(body) and d:
            d += body[j] in "([{"
            d -= body[j] in ")]}"
            j += 1
        args = split_top(body[m.end():j - 1])
        inner = inline(src, callee, depth + 1, stack + (name,))
        for prm, arg in zip(fn_params(src, callee), args):
            am = re.fullmatch(r"&?\s*(?:mut\s+)?(\w+)", arg)
            if prm and am and am.group(1) != prm:
                inner = re.sub(r"(?<![\w.])" + re.escape(prm) + r"\b(?!\s*:(?!:))", am.group(1), inner)
                inner = re.sub(r"(:\s*)" + re.escape(prm) + r"\b", r"\g<1>" + am.group(1), inner)
        out.append(body[i:m.start()] + "{ /*" + callee + "*/ " + body[m.end():j - 1] + " ; " + inner + " }")
        i = j
    return "".join(out)


def body_of(src, fn, what):
    """the body the markers are looked for in: private helpers of the same file inlined, so that a
    block extracted into a helper (or a helper inlined by hand) leaves the marker order unchanged"""
    if try_fn_body(src, fn) is None:
        die(f"c05_conc_order: fn {fn} ({what}) not found")
    return inline(src, fn)


def order(src, fn, markers):
    body = body_of(src, fn, "order skeleton")
    found = []
    for name, pats in markers:
        p = first_pos(body, pats)
        if p < 0:
            die(f"c05_conc_order: marker `{name}` not found in fn {fn}")
        found.append((p, name))
    found.sort()
    return [n for _, n in found]


def impl_block(src, ty):
    """text of `impl <ty> { … }` (the inherent impl), brace balanced"""
    m = re.search(r"\bimpl\s+" + re.escape(ty) + r"\s*\{", src)
    if not m:
        die(f"c05_conc_order: impl {ty} not found")
    i = m.end() - 1
    depth, j = 0, i
    while j < len(src):
        if src[j] == "{":
            depth += 1
        elif src[j] == "}":
            depth -= 1
            if depth == 0:
                return src[i:j + 1]
        j += 1
    die(f"c05_conc_order: unbalanced braces in impl {ty}")


# what is called (never the names of locals):
GATE_SHARED = r"operation_gate[\s\S]{0,60}?\." + W + r"read_owned" + W + r"\(" + W + r"\)" + W + r"\." + W + "await"
GATE_EXCL = r"operation_gate[\s\S]{0,60}?\." + W + r"write_owned" + W + r"\(" + W + r"\)" + W + r"\." + W + "await"
DOC_LOCK = [r"\bdoc_lock" + W + r"\(" + ARGS + r"\)" + W + r"\." + W + r"lock" + W + r"\(" + W + r"\)" + W + r"\." + W + "await",
            r"/\*doc_lock\*/[^}]*\}" + W + r"\." + W + r"lock" + W + r"\(" + W + r"\)" + W + r"\." + W + "await"]
BITMAP_CHECK = rx("doc_ids . read ( ) . contains (")
STORAGE_GET = r"storage" + W + r"\." + W + r"get" + W + r"(?:::" + W + r"<[^>()]*>)?" + W + r"\("
FALLIBLE = lambda m: r"\." + W + m + W + r"\(" + ARGS + r"\)" + W + r"\?"      # `x.m(..)?`
THREE_ARGS = lambda m: r"\." + W + m + W + r"\(" + W + r"[^,()]+," + W + r"[^,()]+," + W + r"[^,()]+\)"
ASYNC_REMOVE = r"\." + W + r"remove" + W + r"\(" + ARGS + r"\)" + W + r"\." + W + "await"   # moka `cache.remove(path).await`
BUMP = [r"cache_write_seqs" + W + r"\[[\s\S]{0,120}?\]" + W + r"\." + W + r"fetch_add"] + call("bump_cache_write_seq")

facts = {}
facts["mutationLease"] = order(col, "mutation_lease", [
    ("gate_shared", GATE_SHARED),
    ("lifecycle", call("ensure_mutable")),
])
facts["flush"] = order(col, "flush", [
    ("gate_exclusive", GATE_EXCL),
    ("lifecycle", call("ensure_mutable")),
    ("flush_inner", call("flush_inner")),
])
facts["add"] = order(col, "add", [
    ("lease", call("mutation_lease")),
    ("impl", call("add_impl")),
])
facts["addImpl"] = order(col, "add_impl", [
    ("validate", rx("schema . validate (")),
    ("alloc", rx("max_document_id . fetch_add (")),
    ("watermark", call("ensure_allocation_watermark")),
    ("index_insert", FALLIBLE("insert")),
    ("create", rx("storage . create (")),
    ("bitmap", rx("doc_ids . write ( ) . add (")),
    ("counters", r"insert_count" + W + r"\+="),
])
wb = body_of(col, "ensure_allocation_watermark", "watermark")
LOAD = rx("durable_alloc_watermark . load (")
# the check may be wrapped in a local closure (`let covered = || id <= ….load(..);` … `covered()`):
# blank the closure definition and count its calls as checks
CHECK = [LOAD]
for cm in list(re.finditer(r"\blet\s+(\w+)\s*=\s*(?:move\s+)?\|\s*\|([^;]*);", wb)):
    if re.search(LOAD, cm.group(2)):
        wb = wb[:cm.start()] + " " * (cm.end() - cm.start()) + wb[cm.end():]
        CHECK.append(r"\b" + re.escape(cm.group(1)) + W + r"\(" + W + r"\)")
wm = [("check", CHECK), ("gate", rx("watermark_gate . lock ( ) . await")), ("put", rx("storage . put (")),
      ("publish", rx("durable_alloc_watermark . fetch_max ("))]
found = []
for name, pats in wm:
    p = first_pos(wb, pats)
    if p < 0:
        die(f"c05_conc_order: marker `{name}` not found in fn ensure_allocation_watermark")
    found.append((p, name))
facts["watermark"] = [n for _, n in sorted(found)]
facts_bool = {}
g = re.search(rx("watermark_gate . lock ( ) . await"), wb)
pw = re.search(rx("storage . put ("), wb)
facts_bool["watermarkDoubleChecked"] = bool(g and pw and first_pos(wb[:g.start()], CHECK) >= 0
                                            and first_pos(wb[g.end():pw.start()], CHECK) >= 0)
facts["update"] = order(col, "update", [
    ("lease", call("mutation_lease")),
    ("impl", call("update_impl")),
])
facts["updateImpl"] = order(col, "update_impl", [
    ("bitmap_check", BITMAP_CHECK),
    ("doc_lock", DOC_LOCK),
    ("get", STORAGE_GET),
    ("validate", rx("schema . validate (")),
    ("intent", call("record_mutation_intent")),
    ("index_update", FALLIBLE("update")),
    ("put", rx("storage . put (")),
    ("counters", r"update_count" + W + r"\+="),
])
ub = body_of(col, "update_impl", "update")
# the document PUT is conditioned on *a* version (`Some(..)` as third argument, not `None`)
facts_bool["updatePutIsVersionConditioned"] = re.search(
    rx("storage . put (") + W + r"[^,()]+," + W + r"[^,()]+," + W + r"Some" + W + r"\(" + W + r"\w+" + W + r"\)" + W + r",?" + W + r"\)", ub) is not None


def holds_lock_to_end(body, fn):
    """the guard of the doc lock is bound to a name (not `_`) that is never dropped explicitly"""
    p = first_pos(body, DOC_LOCK)
    if p < 0:
        die(f"c05_conc_order: doc lock acquisition not found in fn {fn}")
    lets = list(re.finditer(r"\blet\s+(?:mut\s+)?(\w+)\s*(?::[^=;]+)?=", body[:p]))
    if not lets or len(body[lets[-1].end():p].strip()) > 400:
        return False
    name = lets[-1].group(1)
    # nothing but the acquisition expression (possibly wrapped by an inlined helper) between `let x =` and the lock
    between = re.sub(r"\{\s*/\*\w+\*/[^{}]*", "", body[lets[-1].end():p])
    if ";" in between:
        return False
    return name != "_" and re.search(r"\bdrop\s*(?:\(|\*/)\s*" + re.escape(name) + r"\b", body) is None


facts_bool["updateHoldsDocLockToEnd"] = holds_lock_to_end(ub, "update_impl")
facts["removeImpl"] = order(col, "remove_impl", [
    ("bitmap_check", BITMAP_CHECK),
    ("doc_lock", DOC_LOCK),
    ("get", STORAGE_GET),
    ("intent", call("record_mutation_intent")),
    ("index_remove", THREE_ARGS("remove")),
    ("delete", rx("storage . delete (")),
    ("bitmap_remove", rx("doc_ids_index . remove (")),
    ("counters", r"delete_count" + W + r"\+="),
])
rb = body_of(col, "remove_impl", "remove")
facts_bool["removeHoldsDocLockToEnd"] = holds_lock_to_end(rb, "remove_impl")
facts["flushInner"] = order(col, "flush_inner", [
    ("indexes", call("store_indexes")),
    ("metadata", [r"(?<!storage)" + W + r"\." + W + r"store_metadata" + W + r"\(", r"/\*store_metadata\*/"]),
    ("ids", call("store_ids")),
    ("checkpoint", rx("storage . store_metadata (")),
    ("intents", call("clear_mutation_intents")),
])
facts["saveExtension"] = order(col, "save_extension", [
    ("lease", call("mutation_lease")),
    ("set", rx("extensions . insert (")),
    ("persist", call("store_metadata_unclaimed")),
])
facts["storeMetadataUnclaimed"] = order(col, "store_metadata_unclaimed", [
    ("gate", rx("extension_write_gate . lock ( ) . await")),
    ("snapshot", [rx("self . metadata ( )"), r"/\*metadata\*/"]),
    ("expected_version", rx("metadata_version . read (")),
    ("put", r"\." + W + r"put_bytes" + W + r"\("),
    ("publish_version", rx("metadata_version . write (")),
])
facts["get"] = order(col, "get", [
    ("bitmap_check", BITMAP_CHECK),
    ("storage_get", STORAGE_GET),
])

# storage.rs: the read cache. Names of locals are captured, never assumed.
ig = body_of(sto, "inner_get", "read cache")
GEN = r"(?:self" + W + r"\." + W + r"inner" + W + r"\." + W + r")?cache_write_seq" + W + r"\(" + ARGS + r"\)"
snap = re.search(r"\blet\s+(\w+)\s*(?::[^=;]+)?=\s*" + GEN + W + r";", ig)
if not snap:
    die("c05_conc_order: inner_get does not bind the write generation to a local before the fetch")
V = re.escape(snap.group(1))
facts["innerGet"] = []
ig_markers = [
    ("serve_if_generation_matches", [r"\." + W + r"write_seq" + W + r"==" + W + GEN, GEN + W + r"==" + W + r"\w+" + W + r"\." + W + r"write_seq",
                                     # inverted: `if entry.write_seq != generation { return … }`
                                     r"\." + W + r"write_seq" + W + r"!=" + W + GEN + W + r"\{" + W + r"return\b",
                                     GEN + W + r"!=" + W + r"\w+" + W + r"\." + W + r"write_seq" + W + r"\{" + W + r"return\b"]),
    ("read_generation", r"\blet\s+" + V + r"\b"),
    ("fetch", call("inner_fetch")),
    ("recheck_generation", [GEN + W + r"==" + W + V + r"\b", r"\b" + V + W + r"==" + W + GEN,
                            GEN + W + r"!=" + W + V + W + r"\{" + W + r"return\b", r"\b" + V + W + r"!=" + W + GEN + W + r"\{" + W + r"return\b"]),
    ("insert", r"\." + W + r"insert" + W + r"\("),
]
found = []
for name, pats in ig_markers:
    p = first_pos(ig, pats)
    if p < 0:
        die(f"c05_conc_order: marker `{name}` not found in fn inner_get")
    found.append((p, name))
facts["innerGet"] = [n for _, n in sorted(found)]
# the entry stores the generation read *before* the fetch
facts_bool["cacheEntryCarriesPreFetchGeneration"] = re.search(r"\bwrite_seq" + W + r":" + W + V + r"\b", ig) is not None or \
    re.search(r"\bwrite_seq" + W + r"[,}]", ig) is not None and snap.group(1) == "write_seq"

inner = impl_block(sto, "InnerStorage")
facts["storagePut"] = order(inner, "put", [
    ("backend_put", r"\." + W + r"put_opts" + W + r"\("),
    ("publish", call("published_write")),
])
facts["publishedWrite"] = order(inner, "published_write", [
    ("bump_generation", BUMP),
    ("evict", ASYNC_REMOVE),
])
facts["storageDelete"] = order(sto, "delete", [
    ("backend_delete", rx("object_store . delete (")),
    ("bump_generation", BUMP),
    ("evict", ASYNC_REMOVE),
])

EXPECT = {
    "mutationLease": ["gate_shared", "lifecycle"],
    "flush": ["gate_exclusive", "lifecycle", "flush_inner"],
    "add": ["lease", "impl"],
    "addImpl": ["validate", "alloc", "watermark", "index_insert", "create", "bitmap", "counters"],
    "watermark": ["check", "gate", "put", "publish"],
    "update": ["lease", "impl"],
    "updateImpl": ["bitmap_check", "doc_lock", "get", "validate", "intent", "index_update", "put", "counters"],
    "removeImpl": ["bitmap_check", "doc_lock", "get", "intent", "index_remove", "delete", "bitmap_remove", "counters"],
    "flushInner": ["indexes", "metadata", "ids", "checkpoint", "intents"],
    "saveExtension": ["lease", "set", "persist"],
    "storeMetadataUnclaimed": ["gate", "snapshot", "expected_version", "put", "publish_version"],
    "get": ["bitmap_check", "storage_get"],
    "innerGet": ["serve_if_generation_matches", "read_generation", "fetch", "recheck_generation", "insert"],
    "storagePut": ["backend_put", "publish"],
    "publishedWrite": ["bump_generation", "evict"],
    "storageDelete": ["backend_delete", "bump_generation", "evict"],
}


def lean_list(xs):
    return "[" + ", ".join('"' + x + '"' for x in xs) + "]"


lines = ["/- GENERATED by bin/translate/c05_conc_order.py from rs/anda_db/src/collection.rs and storage.rs — do not edit. -/",
         "namespace AndaVerif.Gen.ConcOrder", ""]
for k in EXPECT:
    lines.append(f"/-- order of the markers of `{k}` in the source -/")
    lines.append(f"def {k} : List String := {lean_list(facts[k])}")
for k, v in facts_bool.items():
    lines.append(f"def {k} : Bool := {'true' if v else 'false'}")
lines.append("")
lines.append("/- the order the model `Model/ConcColl.lean` implements -/")
for k, v in EXPECT.items():
    lines.append(f"theorem gen_{k}_order : {k} = {lean_list(v)} := by decide")
for k in facts_bool:
    lines.append(f"theorem gen_{k} : {k} = true := by decide")
lines += ["", "end AndaVerif.Gen.ConcOrder", ""]
write_gen(gen, "ConcOrder.lean", "\n".join(lines))
