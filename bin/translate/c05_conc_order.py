#!/usr/bin/env python3
"""C05: regenerates, from the working tree, the *order skeleton* of the concurrency mechanisms the
model `Model/ConcColl.lean` hard-codes: for each function the sequence in which its lock
acquisitions, lifecycle checks, backend calls and in-memory registrations appear in the source
(first occurrence of each marker, by position, comment-stripped, whitespace-tolerant).
The generated `def`s carry what the source says now; the `theorem gen_…` lines state the order
the model implements, so a reordering in the source (lifecycle check before the gate, bitmap
registration before the object exists, doc lock dropped before the PUT, unconditioned PUT, cache
insert without the generation re-check, …) makes the kernel reject the generated file."""
import re, sys
from common import *

repo, gen = sys.argv[1], sys.argv[2]
col = strip_rust_comments(read_source(repo, "rs/anda_db/src/collection.rs"))
sto = strip_rust_comments(read_source(repo, "rs/anda_db/src/storage.rs"))

W = r"\s*"


def rx(s):
    """'a . b ( x )' -> whitespace tolerant regex (tokens separated by single spaces)"""
    return W.join(re.escape(tok) for tok in s.split(" "))


def order(src, fn, markers, which=0):
    body = fn_body(src, fn, which)
    found = []
    for name, pat in markers:
        m = re.search(pat, body)
        if not m:
            die(f"c05_conc_order: marker `{name}` not found in fn {fn}")
        found.append((m.start(), name))
    found.sort()
    return [n for _, n in found]


def last_before_first(src, fn, a, b, which=0):
    """is there an occurrence of pattern a before the first occurrence of b?"""
    body = fn_body(src, fn, which)
    mb = re.search(b, body)
    if not mb:
        die(f"c05_conc_order: `{b}` not found in fn {fn}")
    return re.search(a, body[:mb.start()]) is not None


facts = {}
facts["mutationLease"] = order(col, "mutation_lease", [
    ("gate_shared", rx("operation_gate . clone ( ) . read_owned ( ) . await")),
    ("lifecycle", rx("self . ensure_mutable ( )")),
])
facts["flush"] = order(col, "flush", [
    ("gate_exclusive", rx("operation_gate . clone ( ) . write_owned ( ) . await")),
    ("lifecycle", rx("self . ensure_mutable ( )")),
    ("flush_inner", rx("self . flush_inner (")),
])
facts["add"] = order(col, "add", [
    ("lease", rx("self . mutation_lease ( ) . await")),
    ("impl", rx("self . add_impl (")),
])
facts["addImpl"] = order(col, "add_impl", [
    ("validate", rx("self . schema . validate (")),
    ("alloc", rx("max_document_id . fetch_add (")),
    ("watermark", rx("self . ensure_allocation_watermark (")),
    ("index_insert", rx("index . insert ( id")),
    ("create", rx("self . storage . create (")),
    ("bitmap", rx("self . doc_ids . write ( ) . add ( id )")),
    ("counters", rx("self . update_metadata (")),
])
facts["watermark"] = order(col, "ensure_allocation_watermark", [
    ("check", rx("durable_alloc_watermark . load (")),
    ("gate", rx("watermark_gate . lock ( ) . await")),
    ("put", rx("self . storage . put (")),
    ("publish", rx("durable_alloc_watermark . fetch_max (")),
])
body = fn_body(col, "ensure_allocation_watermark")
facts_bool = {}
facts_bool["watermarkDoubleChecked"] = len(re.findall(rx("durable_alloc_watermark . load ("), body)) >= 2 and \
    last_before_first(col, "ensure_allocation_watermark", rx("watermark_gate . lock ( ) . await") + r"[\s\S]*" + rx("durable_alloc_watermark . load ("), rx("self . storage . put ("))
facts["update"] = order(col, "update", [
    ("lease", rx("self . mutation_lease ( ) . await")),
    ("impl", rx("self . update_impl (")),
])
facts["updateImpl"] = order(col, "update_impl", [
    ("bitmap_check", rx("self . doc_ids . read ( ) . contains ( id )")),
    ("doc_lock", rx("self . doc_lock ( id ) . lock ( ) . await")),
    ("get", rx("storage . get :: <")),
    ("validate", rx("self . schema . validate (")),
    ("intent", rx("self . record_mutation_intent (")),
    ("index_update", rx("index . update ( id")),
    ("put", rx("self . storage . put (")),
    ("counters", rx("self . update_metadata (")),
])
ub = fn_body(col, "update_impl")
facts_bool["updatePutIsVersionConditioned"] = re.search(rx("storage . put ( & path , & doc , Some ( ver )") + W + r",?" + W + r"\)", ub) is not None
# the guard of the doc lock must be a named binding that lives to the end of the function (not `let _ =`)
facts_bool["updateHoldsDocLockToEnd"] = re.search(r"let\s+_[A-Za-z]\w*\s*=" + W + rx("self . doc_lock ( id ) . lock ( ) . await"), ub) is not None and \
    re.search(r"drop\(\s*_doc_guard\s*\)", ub) is None
facts["removeImpl"] = order(col, "remove_impl", [
    ("bitmap_check", rx("self . doc_ids . read ( ) . contains ( id )")),
    ("doc_lock", rx("self . doc_lock ( id ) . lock ( ) . await")),
    ("get", rx("storage . get :: <")),
    ("intent", rx("self . record_mutation_intent (")),
    ("index_remove", rx("index . remove ( id")),
    ("delete", rx("self . storage . delete (")),
    ("bitmap_remove", rx("doc_ids_index . remove ( & id )")),
    ("counters", rx("self . update_metadata (")),
])
rb = fn_body(col, "remove_impl")
facts_bool["removeHoldsDocLockToEnd"] = re.search(r"let\s+_[A-Za-z]\w*\s*=" + W + rx("self . doc_lock ( id ) . lock ( ) . await"), rb) is not None and \
    re.search(r"drop\(\s*_doc_guard\s*\)", rb) is None
facts["flushInner"] = order(col, "flush_inner", [
    ("indexes", rx("self . store_indexes (")),
    ("metadata", rx("self . store_metadata (")),
    ("ids", rx("self . store_ids (")),
    ("checkpoint", rx("self . storage . store_metadata (")),
    ("intents", rx("self . clear_mutation_intents (")),
])
facts["saveExtension"] = order(col, "save_extension", [
    ("lease", rx("self . mutation_lease ( ) . await")),
    ("set", rx("self . update_metadata (")),
    ("persist", rx("self . store_metadata_unclaimed ( ) . await")),
])
facts["storeMetadataUnclaimed"] = order(col, "store_metadata_unclaimed", [
    ("gate", rx("extension_write_gate . lock ( ) . await")),
    ("snapshot", rx("self . metadata ( )")),
    ("expected_version", rx("self . metadata_version . read ( )")),
    ("put", rx(". put_bytes (")),
    ("publish_version", rx("self . metadata_version . write ( )")),
])
facts["get"] = order(col, "get", [
    ("bitmap_check", rx("self . doc_ids . read ( ) . contains ( id )")),
    ("storage_get", rx("storage . get :: <")),
])
# storage.rs: the read cache
facts["innerGet"] = order(sto, "inner_get", [
    ("serve_if_generation_matches", rx("arc . write_seq == self . inner . cache_write_seq ( path )")),
    ("read_generation", rx("let cache_write_seq = self . inner . cache_write_seq ( path )")),
    ("fetch", rx("self . inner_fetch ( path ) . await")),
    ("recheck_generation", rx("self . inner . cache_write_seq ( path ) == cache_write_seq")),
    ("insert", rx(". insert (")),
])
facts["storagePut"] = order(sto, "put", [
    ("backend_put", rx(". put_opts (")),
    ("publish", rx("self . published_write (")),
], which=len(re.findall(r"\bfn\s+put\b", sto)) - 1)
facts["publishedWrite"] = order(sto, "published_write", [
    ("bump_generation", rx("self . bump_cache_write_seq ( path )")),
    ("evict", rx("cache . remove ( path )")),
])
facts["storageDelete"] = order(sto, "delete", [
    ("backend_delete", rx(". delete ( & path )")),
    ("bump_generation", rx("bump_cache_write_seq ( & path )")),
    ("evict", rx("cache . remove ( & path )")),
])

EXPECT = {
    "mutationLease": ["gate_shared", "lifecycle"],
    "flush": ["gate_exclusive", "lifecycle", "flush_inner"],
    "add": ["lease", "impl"],
    "addImpl": ["validate", "alloc", "watermark", "index_insert", "create", "bitmap", "counters"],
    "watermark": ["check", "gate", "put", "publish"],
    "update": ["lease", "impl"],
    "updateImpl": ["bitmap_check", "doc_lock", "get", "validate", "intent", "index_update", "put", "counters"],
    "removeImpl": ["bitmap_check", "doc_lock", "get", "intent", "index_remove", "delete", "bitmap_remove", "counters"],
    "flushInner": ["indexes", "metadata", "ids", "checkpoint", "intents"],
    "saveExtension": ["lease", "set", "persist"],
    "storeMetadataUnclaimed": ["gate", "snapshot", "expected_version", "put", "publish_version"],
    "get": ["bitmap_check", "storage_get"],
    "innerGet": ["serve_if_generation_matches", "read_generation", "fetch", "recheck_generation", "insert"],
    "storagePut": ["backend_put", "publish"],
    "publishedWrite": ["bump_generation", "evict"],
    "storageDelete": ["backend_delete", "bump_generation", "evict"],
}


def lean_list(xs):
    return "[" + ", ".join('"' + x + '"' for x in xs) + "]"


lines = ["/- GENERATED by bin/translate/c05_conc_order.py from rs/anda_db/src/collection.rs and storage.rs — do not edit. -/",
         "namespace AndaVerif.Gen.ConcOrder", ""]
for k in EXPECT:
    lines.append(f"/-- order of the markers of `{k}` in the source -/")
    lines.append(f"def {k} : List String := {lean_list(facts[k])}")
for k, v in facts_bool.items():
    lines.append(f"def {k} : Bool := {'true' if v else 'false'}")
lines.append("")
lines.append("/- the order the model `Model/ConcColl.lean` implements -/")
for k, v in EXPECT.items():
    lines.append(f"theorem gen_{k}_order : {k} = {lean_list(v)} := by decide")
for k in facts_bool:
    lines.append(f"theorem gen_{k} : {k} = true := by decide")
lines += ["", "end AndaVerif.Gen.ConcOrder", ""]
write_gen(gen, "ConcOrder.lean", "\n".join(lines))
