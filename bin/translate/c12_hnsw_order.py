#!/usr/bin/env python3
"""C12: regenerates from rs/anda_db_hnsw/src/hnsw.rs and rs/anda_db/src/index/hnsw.rs

* the durable order of one flush (`flush_with` and the writer variant `flush`):
  node callback -> ids callback -> metadata callback -> in-memory commit, coded 0,1,2,3 in the
  order of first occurrence in the function body; the collection wrapper's order
  `flush_with` -> `purge_removed_nodes`; the creation order ids -> metadata in `Hnsw::new`;
* the constants the search and the loader use (`MAX_EF_SEARCH`, `SEARCH_MAX_ATTEMPTS`,
  the `max_layers` clamp);
* the commit rule of `commit_flush_snapshot` (dirty marks of the snapshot cleared only under the guard
  `stats.version == snapshot.version`, the dirty set untouched elsewhere);
* the purge rule of `purge_removed_nodes` (the node map is consulted and a live id skipped before the deletion
  callback can run);
* three shape facts of the search: `search_attempt` truncates to `top_k`, `search_layer` marks a
  neighbour visited before it looks it up, and returns `into_sorted_vec()`.
"""
import re, sys
from common import *

# Robustness rules (see CONVENTIONS / the robustness task): every marker keys on WHAT IS CALLED — callback
# PARAMETERS identified by their position/type in the signature, method / field / function / constant names —
# on nesting and on first-occurrence order; never on the names of locals, loop variables, closure parameters,
# comments or the spelling of a statement.  Private helpers are followed by textual inlining.

repo, gen = sys.argv[1], sys.argv[2]
src = cut_tests(strip_rust_comments(read_source(repo, "rs/anda_db_hnsw/src/hnsw.rs")))
ME = "c12_hnsw_order"


def signature(src, name):
    """text between `fn name` and the opening brace of its body (generics, parameters, where clause)"""
    m = re.search(r"\bfn\s+" + re.escape(name) + r"\b", src)
    if not m:
        die(f"{ME}: fn {name} not found")
    return src[m.end():src.index("{", m.end())]


def params(sig):
    """[(name, type text)] of the parameter list of a signature (self excluded)"""
    i = sig.index("(")
    depth, j = 0, i
    while j < len(sig):
        if sig[j] in "([<{":
            depth += 1
        elif sig[j] in ")]>}":
            depth -= 1
            if depth == 0:
                break
        j += 1
    out, depth, cur = [], 0, ""
    for ch in sig[i + 1:j] + ",":
        if ch in "([<{":
            depth += 1
        elif ch in ")]>}":
            depth -= 1
        if ch == "," and depth == 0:
            cur = cur.strip()
            if ":" in cur and not cur.endswith("self"):
                n, t = cur.split(":", 1)
                out.append((n.replace("mut ", "").strip(), t.strip()))
            cur = ""
        else:
            cur += ch
    return out


def ordered(text, markers, where):
    """codes sorted by first occurrence; a missing marker is an error"""
    pos = []
    for code, pats in markers:
        p = first_pos(text, pats)
        if p < 0:
            die(f"{ME}: marker {pats} not found in {where}")
        pos.append((p, code))
    return [c for _, c in sorted(pos)]


# the in-memory commit: the helper by name, or (inlined) its effect on the saved-version watermark
COMMIT = [r"/\*commit_flush_snapshot\*/", r"\bcommit_flush_snapshot\s*\(", r"last_saved_version\s*\.\s*fetch_max\s*\("]

# ---- flush_with: the three callbacks are its generic-typed parameters, in signature order node, ids, metadata
sig = signature(src, "flush_with")
cbs = [n for n, t in params(sig) if re.fullmatch(r"[A-Z]\w*", t)]
if len(cbs) != 3:
    die(f"{ME}: flush_with is expected to take exactly three callback parameters (node, ids, metadata), found {cbs}")
fw = inlined_body(src, "flush_with")
order_with = ordered(fw, [(0, [rf"\b{cbs[0]}\s*\("]), (1, [rf"\b{cbs[1]}\s*\("]), (2, [rf"\b{cbs[2]}\s*\("]), (3, COMMIT)], "flush_with")


def inside_nodes_loop(body, call_pat, where):
    """the node callback must be invoked inside an iteration over the snapshot's `.nodes`"""
    m = re.search(call_pat, body)
    loops = [x for x in re.finditer(r"\bfor\b[^{;]*\bin\b[^{;]*\.\s*nodes\b[^{;]*\{", body)]
    loops += [x for x in re.finditer(r"\.\s*nodes\b[^;{]*\.\s*(?:iter|into_iter)\s*\(\s*\)[^;]*?\{", body)]
    for lp in loops:
        depth, j = 0, lp.end() - 1
        while j < len(body):
            if body[j] == "{":
                depth += 1
            elif body[j] == "}":
                depth -= 1
                if depth == 0:
                    break
            j += 1
        if m and lp.end() <= m.start() < j:
            return
    die(f"{ME}: the node callback is not called inside an iteration over the snapshot's `.nodes` in {where}")


inside_nodes_loop(fw, rf"\b{cbs[0]}\s*\(", "flush_with")

# ---- writer-oriented flush: two writers of one type parameter, in signature order (metadata, ids), and one callback
sig = signature(src, "flush")
ps = params(sig)
gen_params = [(n, t) for n, t in ps if re.fullmatch(r"[A-Z]\w*", t)]
by_type = {}
for n, t in gen_params:
    by_type.setdefault(t, []).append(n)
writers = [v for v in by_type.values() if len(v) == 2]
callbacks = [v for v in by_type.values() if len(v) == 1]
if len(writers) != 1 or len(callbacks) != 1:
    die(f"{ME}: flush is expected to take (metadata writer, ids writer, …, node callback), found {ps}")
w_meta, w_ids = writers[0]
cb_node = callbacks[0][0]
fl = inlined_body(src, "flush")
order_flush = ordered(fl, [(0, [rf"\b{cb_node}\s*\("]), (1, [rf"\b{w_ids}\s*\.\s*write_all\s*\("]), (2, [rf"\b{w_meta}\s*\.\s*write_all\s*\("]), (3, COMMIT)], "flush")
inside_nodes_loop(fl, rf"\b{cb_node}\s*\(", "flush")

max_ef = int_const(src, "MAX_EF_SEARCH")
attempts = int_const(src, "SEARCH_MAX_ATTEMPTS")
min_layers = int_const(src, "MIN_MAX_LAYERS")
max_layers = int_const(src, "MAX_MAX_LAYERS")

# ---- search_attempt truncates its answer to its `usize` parameter (top_k)
sa = inlined_body(src, "search_attempt")
usize_params = [n for n, t in params(signature(src, "search_attempt")) if t == "usize"]
if len(usize_params) != 1:
    die(f"{ME}: search_attempt is expected to have exactly one usize parameter (top_k), found {usize_params}")
truncates = bool(re.search(rf"\.\s*truncate\s*\(\s*{usize_params[0]}\s*\)", sa))

# ---- search_layer: every variable bound by a loop / closure pattern that is looked up with `.get(&v)` is first
#      offered to a set with `.insert(v)` (the visited test); the answer is `into_sorted_vec()`
sl = fn_body(src, "search_layer")
bound = set()
for m in re.finditer(r"\bfor\s+([^{;]*?)\s+in\b", sl):
    bound |= set(re.findall(r"[a-z_]\w*", m.group(1)))
for m in re.finditer(r"\|([^|{};]*)\|", sl):
    bound |= set(re.findall(r"[a-z_]\w*", m.group(1)))
bound -= {"mut", "ref", "_"}
looked_up = [v for v in sorted(bound) if re.search(rf"\.\s*get\s*\(\s*&\s*{v}\s*\)", sl)]
if not looked_up:
    die(f"{ME}: no loop variable of search_layer is looked up with `.get(&v)` (the neighbour lookup)")
visited_first = True
for v in looked_up:
    pi = first_pos(sl, [rf"\.\s*insert\s*\(\s*{v}\s*\)"])
    pg = first_pos(sl, [rf"\.\s*get\s*\(\s*&\s*{v}\s*\)"])
    if pi < 0 or pi > pg:
        visited_first = False
sorted_out = bool(re.search(r"\.\s*into_sorted_vec\s*\(\s*\)", sl))

# ---- commit rule of `commit_flush_snapshot`: the snapshot's dirty marks are cleared inside, and only inside,
#      the guard that the global version is still the snapshot's
cb = inlined_body(src, "commit_flush_snapshot")
snap_params = [n for n, t in params(signature(src, "commit_flush_snapshot"))]
if len(snap_params) != 1:
    die(f"{ME}: commit_flush_snapshot is expected to take the snapshot as its only parameter, found {snap_params}")
snap = snap_params[0]


def block_at(text, open_brace):
    depth, j = 0, open_brace
    while j < len(text):
        if text[j] == "{":
            depth += 1
        elif text[j] == "}":
            depth -= 1
            if depth == 0:
                return j
        j += 1
    die(f"{ME}: unbalanced braces in commit_flush_snapshot")


commit_guarded = False
commit_clears_snapshot_ids = False
glob_ver = r"metadata\b[^=!{]*?\bstats\s*\.\s*version"
snap_ver = rf"\b{snap}\s*\.\s*version\b"
clears = lambda t: bool(re.search(rf"\b{snap}\s*\.\s*dirty_ids\b", t) and re.search(r"\.\s*remove\s*\(", t))
for gm in re.finditer(r"\bif\s+([^{}]*?)(==|!=)([^{}]*?)\{", cb):
    lhs, op, rhs = gm.group(1), gm.group(2), gm.group(3)
    if not ((re.search(glob_ver, lhs) and re.search(snap_ver, rhs)) or (re.search(glob_ver, rhs) and re.search(snap_ver, lhs))):
        continue
    end = block_at(cb, gm.end() - 1)
    then_block, rest = cb[gm.end():end], cb[end + 1:]
    else_block, after = "", rest
    em = re.match(r"\s*else\s*\{", rest)
    if em:
        e_end = block_at(rest, em.end() - 1)
        else_block, after = rest[em.end():e_end], rest[e_end + 1:]
    outside = cb[:gm.start()] + after
    if op == "==":
        inside, other = then_block, else_block
    else:
        inside, other = else_block, then_block
    commit_clears_snapshot_ids = clears(inside)
    # nothing outside the guarded block may touch the dirty set
    touches = lambda t: bool(re.search(r"dirty_nodes|dirty_ids", t))
    commit_guarded = commit_clears_snapshot_ids and not touches(outside) and not touches(other)
    break

# ---- purge_removed_nodes: the deletion callback is reached only after the NODE MAP was consulted for that id
#      (`contains_key`), and a live id is skipped (`continue`) — the tombstone set alone never decides a deletion
def mask_inlined(text):
    """the inlined text with every `{ /*helper*/ … }` region blanked (same length): what the function does ITSELF"""
    out, i = list(text), 0
    for m in re.finditer(r"\{\s*/\*\w+\*/", text):
        if m.start() < i:
            continue
        depth, j = 0, m.start()
        while j < len(text):
            if text[j] == "{":
                depth += 1
            elif text[j] == "}":
                depth -= 1
                if depth == 0:
                    break
            j += 1
        for k in range(m.start(), min(j + 1, len(text))):
            if out[k] != "\n":
                out[k] = " "
        i = j + 1
    return "".join(out)


pb = inlined_body(src, "purge_removed_nodes")
pcb = [n for n, t in params(signature(src, "purge_removed_nodes")) if re.fullmatch(r"[A-Z]\w*", t)]
if len(pcb) != 1:
    die(f"{ME}: purge_removed_nodes is expected to take exactly one callback parameter, found {pcb}")
# the callback as the function itself invokes it (an inlined helper's own `f(` is not it); if the invocation was
# moved into a helper, look at the fully inlined text
p_call = first_pos(mask_inlined(pb), [rf"(?<![\w.:]){pcb[0]}\s*\("])
if p_call < 0:
    p_call = first_pos(pb, [rf"(?<![\w.:]){pcb[0]}\s*\("])
if p_call < 0:
    die(f"{ME}: purge_removed_nodes never invokes its callback")
before = pb[:p_call]
p_chk = first_pos(before, [r"\bnodes\b[^;{}]*\.\s*contains_key\s*\(", r"\.\s*contains_key\s*\("])
purge_consults = p_chk >= 0 and bool(re.search(r"\bcontinue\b", before[p_chk:]))
# … and the tombstones it walks are the index's own removed set
purge_walks_tombstones = bool(re.search(r"removed_nodes", before))

# ---- the collection wrapper
wsrc = cut_tests(strip_rust_comments(read_source(repo, "rs/anda_db/src/index/hnsw.rs")))
wf = inlined_body(wsrc, "flush")
order_wrapper = ordered(wf, [(0, [r"\.\s*flush_with\s*\("]), (1, [r"\.\s*purge_removed_nodes\s*\("])], "Hnsw::flush")
wn = inlined_body(wsrc, "new")
order_new = ordered(wn, [(1, [r"\bids_path\s*\(", r"/\*ids_path\*/"]), (2, [r"\bmetadata_path\s*\(", r"/\*metadata_path\*/"])], "Hnsw::new")


def lst(xs):
    return "[" + ", ".join(str(x) for x in xs) + "]"


text = f"""/- GENERATED by bin/translate/c12_hnsw_order.py from rs/anda_db_hnsw/src/hnsw.rs and
rs/anda_db/src/index/hnsw.rs — do not edit. -/
namespace AndaVerif.Gen.HnswOrder

/-- phases of one flush in the order the code performs them:
0 = node blobs, 1 = ids object, 2 = metadata object (commit record), 3 = in-memory commit -/
def flushOrder : List Nat := {lst(order_with)}
/-- the same for the writer-oriented `flush` -/
def flushOrderWriter : List Nat := {lst(order_flush)}
/-- `anda_db::index::Hnsw::flush`: 0 = `flush_with`, 1 = `purge_removed_nodes` -/
def wrapperOrder : List Nat := {lst(order_wrapper)}
/-- `anda_db::index::Hnsw::new`: 1 = ids put, 2 = metadata put -/
def createOrder : List Nat := {lst(order_new)}

/-- `HnswConfig::MAX_EF_SEARCH` -/
def maxEfSearch : Nat := {max_ef}
/-- `HnswIndex::SEARCH_MAX_ATTEMPTS` -/
def searchMaxAttempts : Nat := {attempts}
/-- `HnswConfig::MIN_MAX_LAYERS`, `MAX_MAX_LAYERS` (the clamp of `normalized()`) -/
def minMaxLayers : Nat := {min_layers}
def maxMaxLayers : Nat := {max_layers}

/-- `commit_flush_snapshot` clears the snapshot's dirty ids … -/
def commitClearsSnapshotIds : Bool := {"true" if commit_clears_snapshot_ids else "false"}
/-- … inside the guard `stats.version == snapshot.version`, and touches the dirty set nowhere else -/
def commitClearsOnlyIfVersionUnchanged : Bool := {"true" if commit_guarded else "false"}

/-- `purge_removed_nodes` consults the node map (`contains_key`) for each tombstone and skips (`continue`) a live id
before its deletion callback can run -/
def purgeConsultsNodeMap : Bool := {"true" if purge_consults and purge_walks_tombstones else "false"}

/-- `search_attempt` ends with `results.truncate(top_k)` -/
def attemptTruncates : Bool := {"true" if truncates else "false"}
/-- `search_layer` tests `visited.insert(neighbor)` before `nodes.get(&neighbor)` -/
def visitedBeforeLookup : Bool := {"true" if visited_first else "false"}
/-- `search_layer` returns `results.into_sorted_vec()` -/
def sortedOutput : Bool := {"true" if sorted_out else "false"}

theorem gen_flush_order : flushOrder = [0, 1, 2, 3] := by decide
theorem gen_flush_order_writer : flushOrderWriter = [0, 1, 2, 3] := by decide
theorem gen_wrapper_order : wrapperOrder = [0, 1] := by decide
theorem gen_create_order : createOrder = [1, 2] := by decide
theorem gen_commit_rule : commitClearsSnapshotIds = true ∧ commitClearsOnlyIfVersionUnchanged = true := by decide
theorem gen_purge_rule : purgeConsultsNodeMap = true := by decide
theorem gen_attempts_pos : 0 < searchMaxAttempts := by decide
theorem gen_layers_clamp : 0 < minMaxLayers ∧ minMaxLayers ≤ maxMaxLayers := by decide
theorem gen_search_shape : attemptTruncates = true ∧ visitedBeforeLookup = true ∧ sortedOutput = true := by decide

end AndaVerif.Gen.HnswOrder
"""
write_gen(gen, "HnswOrder.lean", text)
