#!/usr/bin/env python3
"""C18: the table of KQL WHERE forms the engine evaluates (every one of them can be read AS OF a coordinate)
and the table of forms the harness's then-vs-AS-OF battery exercises.

* rs/anda_cognitive_nexus/src/kql/mod.rs  `apply_clause_inner`: every `WhereClause::X` variant it dispatches on
  (a catch-all arm is an error: the list would no longer be explicit);
* harness/c17/src/runner.rs `BATTERY_FORMS`: the forms the battery claims (the harness verifies the claim at
  start-up by parsing its own queries with the real parser: oracle key `battery-misses-query-form`).

`Props/C18.lean` `query_forms_covered` proves every engine form is in the battery's list: a WHERE form added to
the engine fails the check until the battery has a query for it.
"""
import os, re, sys
from common import *

repo, gen = sys.argv[1], sys.argv[2]
T = "c18_query_forms"
src = cut_tests(strip_rust_comments(read_source(repo, "rs/anda_cognitive_nexus/src/kql/mod.rs")))
body = inlined_body(src, "apply_clause_inner")
forms = sorted(set(re.findall(r"WhereClause\s*::\s*(\w+)", body)))
if len(forms) < 5:
    die(f"{T}: apply_clause_inner dispatches on only {len(forms)} WhereClause variants")
if re.search(r"\n\s*_\s*=>", fn_body(src, "apply_clause_inner")):
    die(f"{T}: apply_clause_inner has a catch-all arm: the list of query forms is no longer explicit")
# the historical candidate source: a read bound to a coordinate takes its candidates from `elements_at`
# (the version log at the coordinate) and returns before any present-day index filter is consulted
cand = inlined_body(src, "candidates")
m_asof = re.search(r"if\s+let\s+Some\s*\(\s*\w+\s*\)\s*=\s*self\s*\.\s*as_of", cand)
hist_first = False
if m_asof:
    i = cand.index("{", m_asof.end()); depth = 0; j = i
    while j < len(cand):
        depth += {"{": 1, "}": -1}.get(cand[j], 0)
        if depth == 0: break
        j += 1
    blk = cand[i:j]
    hist_first = bool(re.search(r"\.\s*elements_at\s*\(", blk)) and bool(re.search(r"\breturn\b", blk)) \
        and not re.search(r"query_all_ids\s*\(", blk) and not re.search(r"query_all_ids\s*\(", cand[:m_asof.start()])

runner = os.path.join(os.path.dirname(os.path.abspath(__file__)), "..", "..", "harness", "c17", "src", "runner.rs")
rs = open(runner).read()   # (string contents are what is wanted here: not comment-stripped)
m = re.search(r"BATTERY_FORMS\s*:\s*\[[^\]]*\]\s*=\s*\[([^\]]*)\]", rs)
if not m:
    die(f"{T}: BATTERY_FORMS not found in harness/c17/src/runner.rs")
battery = sorted(set(re.findall(r'"(\w+)"', m.group(1))))

# ---------------------------------------------------------------- matcher keys: index column vs view path
# `column_of` (the index column a present-day read filters on) and `view_key` (the path the historical
# re-check reads in the rendered view) are two tables over (element kind, matcher key); both are extracted,
# `*` (any kind) is expanded over the kinds `match_element` is called for, and every path `view_key` yields
# for a key `column_of` knows must exist in that kind's rendered view (`view.rs`).
def no_line_comments(text):
    return re.sub(r"(?m)^\s*//[^\n]*$", "", text)
mraw = cut_tests(no_line_comments(read_source(repo, "rs/anda_cognitive_nexus/src/kql/matching.rs")))
def raw_fn(text, name):
    m0 = re.search(r"\bfn\s+" + name + r"\s*\(", text)
    if not m0:
        die(f"{T}: fn {name} not found")
    i = text.index("{", m0.end()); depth = 0; j = i
    while j < len(text):
        depth += {"{": 1, "}": -1}.get(text[j], 0)
        if depth == 0: break
        j += 1
    return text[i + 1:j]
def arms(name):
    """(kind | *, key, value) for every arm, or-patterns and block bodies included"""
    out = []
    one = r'\(\s*(?:_|ElementKind\s*::\s*\w+)\s*,\s*"\w+"\s*\)'
    for m1 in re.finditer(r'((?:' + one + r'\s*\|?\s*)+)=>\s*\{?\s*(?:Some\s*\(\s*)?"([\w.]+)"', raw_fn(mraw, name)):
        for k, key in re.findall(r'\(\s*(_|ElementKind\s*::\s*\w+)\s*,\s*"(\w+)"\s*\)', m1.group(1)):
            out.append(("*" if k == "_" else k.split("::")[-1].strip(), key, m1.group(2)))
    if not out:
        die(f"{T}: no (kind, key) arms found in {name}")
    return out
col, vk = arms("column_of"), arms("view_key")
kinds = sorted(set(re.findall(r"match_element\s*\(\s*ElementKind\s*::\s*(\w+)", body)))
if not kinds:
    die(f"{T}: match_element is not called with an explicit ElementKind")
def expand(table):
    d = {}
    for k, key, val in table:          # explicit arms first (source order: the first matching arm wins)
        for kk in (kinds if k == "*" else [k]):
            if kk in kinds:
                d.setdefault((kk, key), val)
    return d
cold, vkd = expand(col), expand(vk)
pairs = sorted(set(cold) | set(vkd))
def view_path(kind, key):
    return vkd.get((kind, key), key)

vsrc = cut_tests(strip_rust_comments(read_source(repo, "rs/anda_cognitive_nexus/src/view.rs")))
def view_paths(fn):
    b = try_fn_body(vsrc, fn)
    if b is None:
        die(f"{T}: view.rs has no fn {fn}")
    paths, stack, last, i = set(), [], None, 0
    while i < len(b):
        c = b[i]
        m1 = re.match(r"([A-Za-z_]\w*)\s*:(?!:)", b[i:]) if (c.isalpha() or c == "_") and (i == 0 or not (b[i-1].isalnum() or b[i-1] in "_:.")) else None
        if m1:
            last = m1.group(1); paths.add(".".join([x for x in stack if x] + [last])); i += m1.end(); continue
        if c.isalpha() or c == "_":
            m2 = re.match(r"\w+", b[i:]); i += m2.end(); continue
        if c == "{": stack.append(last); last = None
        elif c == "}":
            if stack: stack.pop()
            last = None
        i += 1
    out = set()
    for pth in paths:
        segs = pth.split(".")
        if "envelope" in segs:          # the envelope is flattened: `id`, `kind`, and the rest under `_system`
            leaf = segs[-1]
            out.add(leaf if leaf in ("id", "kind") else "_system." + leaf)
            out.add("_system")
        else:
            # keep the path below the top-level struct literal (drop the binding's own nesting level)
            out.add(".".join(segs[-2:]) if len(segs) >= 2 and segs[-2] in ("lifecycle", "valid_time") else segs[-1] if len(segs) <= 2 else ".".join(segs[-2:]))
    return out
VIEW_FN = {"Concept": "concept", "Assertion": "assertion", "Evidence": "evidence", "Activity": "activity", "Proposition": "proposition"}
missing = []
for (k, key) in sorted(cold):
    pth = view_path(k, key)
    have = view_paths(VIEW_FN[k])
    nested_only = {x.split(".")[-1] for x in have if "." in x and not x.startswith("_system")} - {x for x in have if "." not in x}
    ok = pth in have and not (("." not in pth) and pth in nested_only)
    if not ok:
        missing.append(f"{k}.{key}->{pth}")
view_paths_exist = not missing

mk = re.search(r"BATTERY_KEYS\s*:\s*\[[^\]]*\]\s*=\s*\[(.*?)\];", rs, re.S)
if not mk:
    die(f"{T}: BATTERY_KEYS not found in harness/c17/src/runner.rs")
battery_keys = sorted(set(f"{a}.{b_}" for a, b_ in re.findall(r'\(\s*"(\w+)"\s*,\s*"(\w+)"\s*\)', mk.group(1))))

def lst(xs):
    return "[" + ", ".join('"' + x + '"' for x in xs) + "]"

write_gen(gen, "QueryForms.lean", f"""/- GENERATED by bin/translate/c18_query_forms.py from rs/anda_cognitive_nexus/src/kql/mod.rs and
harness/c17/src/runner.rs — do not edit. -/
namespace AndaVerif.Gen.QueryForms

/-- every `WhereClause` variant `kql::Context::apply_clause_inner` dispatches on -/
def queryForms : List String := {lst(forms)}
/-- the forms the then-vs-AS-OF battery of the harness exercises (`BATTERY_FORMS`, verified at start-up with the real parser) -/
def batteryForms : List String := {lst(battery)}
/-- `Context::candidates`: a read bound to a coordinate takes its candidates from `elements_at` and
returns before any present-day index is asked -/
def historicalCandidatesFromVersionLog : Bool := {"true" if hist_first else "false"}

/-- the element kinds `match_element` is called for -/
def matchableKinds : List String := {lst(kinds)}
/-- every (kind, matcher key) pair `column_of` (index column of a present-day read) or `view_key` (view
path of the historical re-check) knows, `kind.key`, "any kind" expanded over `matchableKinds` -/
def matcherKeys : List String := {lst([f"{k}.{key}" for k, key in pairs])}
/-- the pairs the battery constrains in some query (`BATTERY_KEYS`, verified by the harness at start-up) -/
def batteryKeys : List String := {lst(battery_keys)}
/-- for every pair `column_of` knows, the path `view_key` reads exists in that kind's rendered view
(`view.rs`), at the nesting level it is read at; the pairs for which it does not: -/
def viewPathsMissing : List String := {lst(missing)}

theorem gen_view_paths_exist : viewPathsMissing = [] := by decide
theorem gen_query_forms : queryForms = {lst(forms)} := by decide
theorem gen_historical_candidates : historicalCandidatesFromVersionLog = true := by decide

end AndaVerif.Gen.QueryForms
""")
