#!/usr/bin/env python3
"""c19_gate_tables.py <repo_root> <gen_dir>  ->  <gen_dir>/GateTables.lean   (property C19)

Regenerates, from the working tree, the data-like parts of the governance model:

  governance/permission.rs   the `permissions!` registry (variant, wire name, family) and the
                             `is_always_audited` families / variants
  governance/gate.rs         `kql_permissions` (base list, what `AS OF` adds, what a BELIEF adds),
                             `projects_belief` (leaf variants / variants it recurses through),
                             `meta_permissions`, `describe_permissions`, `clause_permissions`
  governance/decision.rs     `MAX_DELEGATION_DEPTH`, the textual order of the stages of `authorize`,
                             the owner's synthetic constraints
  anda_kip ast.rs            the variant lists of `WhereClause` (and which nest clauses), `MetaCommand`,
                             `DescribeTarget`, `MutationClause`
  nexus.rs                   per `Command` arm of `Session::execute`: lock kind, gate table used, executor
  kml/ kql/ meta/ tx.rs …    which control-plane mutators each executor module names at all

Strict about meaning: a missing / duplicated marker is an error, never a default. Tolerant about
layout: works on a comment-stripped copy (string literals kept) and keys on names and nesting.
"""
import os, re, sys

sys.path.insert(0, os.path.dirname(os.path.abspath(__file__)))
from common import die, read_source, write_gen, inlined_body, order_of, first_pos  # noqa: E402


def strip_comments_keep_strings(src, blank=False):
    out, i, n = [], 0, len(src)
    while i < n:
        c = src[i]
        if src.startswith("//", i):
            while i < n and src[i] != "\n":
                i += 1
        elif src.startswith("/*", i):
            depth = 1
            i += 2
            while i < n and depth:
                if src.startswith("/*", i):
                    depth += 1; i += 2
                elif src.startswith("*/", i):
                    depth -= 1; i += 2
                else:
                    if src[i] == "\n":
                        out.append("\n")
                    i += 1
        elif c == '"':
            j = i + 1
            while j < n and src[j] != '"':
                if src[j] == "\\":
                    j += 1
                j += 1
            out.append('""' if blank else src[i:j + 1])
            i = j + 1
        elif c == "r" and src.startswith('r#"', i):
            j = src.index('"#', i + 3)
            out.append('""' if blank else src[i:j + 2])
            i = j + 2
        elif c == "'" and re.match(r"'(\\.|[^\\'])'", src[i:i + 4]):
            j = src.index("'", i + 2 if src[i + 1] != "\\" else i + 3)
            out.append("' '" if blank else src[i:j + 1])
            i = j + 1
        else:
            out.append(c)
            i += 1
    return "".join(out)


def block_after(src, start):
    """Text between the braces of the first `{` at or after `start` (brace matched, strings skipped)."""
    i = src.index("{", start)
    depth, j, n = 0, i, len(src)
    while j < n:
        ch = src[j]
        if ch == '"':
            j += 1
            while j < n and src[j] != '"':
                if src[j] == "\\":
                    j += 1
                j += 1
        elif ch == "{":
            depth += 1
        elif ch == "}":
            depth -= 1
            if depth == 0:
                return src[i + 1:j]
        j += 1
    die("translator c19: unbalanced braces")


def fn_body(src, name):
    ms = list(re.finditer(r"\bfn\s+" + re.escape(name) + r"\b", src))
    if len(ms) != 1:
        die(f"translator c19: expected exactly one `fn {name}`, found {len(ms)}")
    return block_after(src, ms[0].end())


def cut_tests(src):
    m = re.search(r"#\[cfg\(test\)\]\s*mod\s+tests", src)
    return src[:m.start()] if m else src


def split_top(text, sep=","):
    """Splits on `sep` at nesting depth 0 of (), {}, [] and outside strings."""
    parts, depth, cur, i, n = [], 0, [], 0, len(text)
    while i < n:
        ch = text[i]
        if ch == '"':
            j = i + 1
            while j < n and text[j] != '"':
                if text[j] == "\\":
                    j += 1
                j += 1
            cur.append(text[i:j + 1]); i = j + 1; continue
        if ch in "({[":
            depth += 1
        elif ch in ")}]":
            depth -= 1
        if ch == sep and depth == 0:
            parts.append("".join(cur)); cur = []
        else:
            cur.append(ch)
        i += 1
    if "".join(cur).strip():
        parts.append("".join(cur))
    return parts


def enum_variants(src, name):
    """[(variant, payload text)] of `pub enum name`."""
    ms = list(re.finditer(r"\bpub\s+enum\s+" + re.escape(name) + r"\b", src))
    if len(ms) != 1:
        die(f"translator c19: expected exactly one `pub enum {name}`, found {len(ms)}")
    body = block_after(src, ms[0].end())
    out = []
    for part in split_top(body):
        part = re.sub(r"#\[[^\]]*\]", "", part).strip()
        if not part:
            continue
        m = re.match(r"([A-Z]\w*)\s*(.*)$", part, re.S)
        if not m:
            die(f"translator c19: cannot read a variant of enum {name}: {part[:60]!r}")
        out.append((m.group(1), m.group(2)))
    if not out:
        die(f"translator c19: enum {name} has no variants")
    return out


def match_arms(body, enum):
    """[(list of (variant, pattern tail), rhs text)] for the `match` arms in `body` whose patterns name `enum::`.
    A bare `_` arm is reported with variant `_`."""
    m = re.search(r"\bmatch\s+[\w\.\*&]+\s*\{", body)
    if not m:
        die(f"translator c19: no match expression over {enum}")
    inner = block_after(body, m.end() - 1)
    arms = []
    for part in split_top(inner):
        if "=>" not in part:
            if part.strip():
                die(f"translator c19: cannot read match arm {part.strip()[:60]!r}")
            continue
        pat, rhs = part.split("=>", 1)
        # an arm with a block body is not followed by a comma: `pat => { … } next_pat => …` — split those
        arms.append((pat.strip(), rhs.strip()))
    out = []
    for pat, rhs in arms:
        # block-bodied arms can swallow the next arm: re-split on `}` followed by a pattern start
        while True:
            mm = re.match(r"(\{.*?\})\s*((?:" + enum + r"::|_\s*=>).*)$", rhs, re.S) if rhs.startswith("{") else None
            if mm and "=>" in mm.group(2):
                out.append((pat, mm.group(1)))
                pat, rhs = [x.strip() for x in mm.group(2).split("=>", 1)]
            else:
                break
        out.append((pat, rhs))
    res = []
    for pat, rhs in out:
        alts = []
        for alt in split_top(pat, "|"):
            alt = alt.strip()
            if alt == "_":
                alts.append(("_", ""))
                continue
            mm = re.match(enum + r"::(\w+)\s*(.*)$", alt, re.S)
            if not mm:
                die(f"translator c19: pattern {alt[:60]!r} does not name {enum}::")
            alts.append((mm.group(1), mm.group(2).strip()))
        res.append((alts, rhs))
    return res


def perms_of(rhs, what):
    """Permission variants of `vec![Permission::A, …]` / `Vec::new()`; None when the rhs is something else."""
    rhs = rhs.strip().rstrip(",").strip()
    if rhs.startswith("{") and rhs.endswith("}"):
        rhs = rhs[1:-1].strip()
    if re.fullmatch(r"Vec::new\(\)", rhs):
        return []
    m = re.fullmatch(r"vec!\[(.*)\]", rhs, re.S)
    if not m:
        return None
    out = []
    for p in split_top(m.group(1)):
        p = p.strip()
        if not p:
            continue
        mm = re.fullmatch(r"Permission::(\w+)", p)
        if not mm:
            die(f"translator c19: {what}: {p!r} is not a Permission variant")
        out.append(mm.group(1))
    return out


def lean_str(s):
    return '"' + s.replace("\\", "\\\\").replace('"', '\\"') + '"'


def lean_list(xs, f=lean_str):
    return "[" + ", ".join(f(x) for x in xs) + "]"


def main():
    if len(sys.argv) != 3:
        die("usage: c19_gate_tables.py <repo_root> <gen_dir>")
    repo, gen = sys.argv[1], sys.argv[2]
    nx = "rs/anda_cognitive_nexus/src/"

    # ---- permission registry --------------------------------------------------------------
    perm_src = cut_tests(strip_comments_keep_strings(read_source(repo, nx + "governance/permission.rs")))
    ms = list(re.finditer(r"^permissions!\s*\{", perm_src, re.M))
    if len(ms) != 1:
        die(f"translator c19: expected one `permissions! {{` invocation, found {len(ms)}")
    reg_body = block_after(perm_src, ms[0].end() - 1)
    registry = []  # (variant, name, family)
    for entry in split_top(reg_body, ";"):
        entry = entry.strip()
        if not entry:
            continue
        m = re.match(r'(\w+)\s*=>\s*"([^"]+)"\s*,\s*(\w+)\s*,\s*"', entry, re.S)
        if not m:
            die(f"translator c19: cannot read registry entry {entry[:60]!r}")
        registry.append(m.groups())
    variants = [v for v, _, _ in registry]
    if len(set(variants)) != len(variants) or len({n for _, n, _ in registry}) != len(registry):
        die("translator c19: duplicate permission variant or wire name")
    name_of = {v: n for v, n, _ in registry}
    aud = fn_body(perm_src, "is_always_audited")
    mm = re.findall(r"matches!\s*\(\s*self\.family\(\)\s*,([^)]*)\)", aud, re.S)
    mv = re.findall(r"matches!\s*\(\s*self\s*,([^)]*)\)", aud, re.S)
    if len(mm) != 1 or len(mv) != 1:
        die("translator c19: is_always_audited no longer has the shape `matches!(self.family(), …) || matches!(self, …)`")
    aud_fams = re.findall(r"Family::(\w+)", mm[0])
    aud_vars = re.findall(r"Self::(\w+)", mv[0])
    for v in aud_vars:
        if v not in name_of:
            die(f"translator c19: is_always_audited names unknown permission {v}")
    always = [n for v, n, f in registry if f in aud_fams or v in aud_vars]

    def names(vs, what):
        for v in vs:
            if v not in name_of:
                die(f"translator c19: {what} names unknown permission variant {v}")
        return [name_of[v] for v in vs]

    # ---- AST enums ------------------------------------------------------------------------
    ast = strip_comments_keep_strings(read_source(repo, "rs/anda_kip/src/ast.rs"))
    where_vars = enum_variants(ast, "WhereClause")
    where_nesting = [v for v, payload in where_vars if re.search(r"\bWhereClause\b", payload)]
    meta_vars = [v for v, _ in enum_variants(ast, "MetaCommand")]
    describe_vars = [v for v, _ in enum_variants(ast, "DescribeTarget")]
    clause_vars = [v for v, _ in enum_variants(ast, "MutationClause")]
    command_vars = [v for v, _ in enum_variants(ast, "Command")]

    # ---- gate.rs --------------------------------------------------------------------------
    gate = cut_tests(strip_comments_keep_strings(read_source(repo, nx + "governance/gate.rs")))
    gate_fns = set(re.findall(r"\bfn\s+(\w+)", gate))
    kql = fn_body(gate, "kql_permissions")
    # the accumulator (whatever it is called) starts from a `vec![Permission::…]` and is what the function returns
    m = re.search(r"let\s+mut\s+(\w+)\s*(?::[^=;]+)?=\s*(vec!\[[^\]]*\])\s*;", kql)
    if not m:
        die("translator c19: kql_permissions no longer starts its answer from a `vec![Permission::…]`")
    acc = m.group(1)
    kql_base = names(perms_of(m.group(2), "kql base"), "kql_permissions")
    kql_as_of, kql_belief, seen, belief_helper = [], [], 0, None
    for im in re.finditer(r"\bif\s+(.*?)\{\s*" + acc + r"\.push\(\s*Permission::(\w+)\s*\)\s*;?\s*\}", kql, re.S):
        cond, perm = im.group(1), im.group(2)
        seen += 1
        hm = re.search(r"where_clauses\s*\.\s*iter\(\)\s*\.\s*any\(\s*(?:\|\s*(\w+)\s*\|\s*)?(\w+)\s*(?:\(\s*\1\s*\)\s*)?\)", cond)
        if re.search(r"\bas_of\b", cond) and "is_some" in cond:
            kql_as_of += names([perm], "kql_permissions")
        elif hm and hm.group(2) in gate_fns:
            if belief_helper not in (None, hm.group(2)):
                die("translator c19: kql_permissions tests the WHERE clauses with two different helpers")
            belief_helper = hm.group(2)
            kql_belief += names([perm], "kql_permissions")
        else:
            die(f"translator c19: kql_permissions has a condition this translator does not understand: {cond.strip()[:80]!r}")
    if seen != len(re.findall(r"\b" + acc + r"\.(?:push|extend|insert)\b", kql)):
        die("translator c19: kql_permissions adds a permission outside an understood `if`")
    if not re.search(r"\b" + acc + r"\s*$", kql.strip()):
        die("translator c19: kql_permissions does not end by returning the list it built")
    if belief_helper is None:
        die("translator c19: kql_permissions no longer asks a helper whether a WHERE clause projects a belief")
    pb = fn_body(gate, belief_helper)
    belief_leaf, belief_rec = [], []
    for alts, rhs in match_arms(pb, "WhereClause"):
        rhs_c = rhs.rstrip(",").strip()
        while rhs_c.startswith("{") and rhs_c.endswith("}"):
            rhs_c = rhs_c[1:-1].strip()
        vs = [v for v, _ in alts]
        if rhs_c == "true":
            belief_leaf += vs
        elif re.fullmatch(r"\w+\s*\.\s*iter\(\)\s*\.\s*any\(\s*(?:\|\s*(\w+)\s*\|\s*)?" + belief_helper + r"\s*(?:\(\s*\1\s*\)\s*)?\)", rhs_c):
            belief_rec += vs
        elif rhs_c == "false":
            if vs != ["_"]:
                die(f"translator c19: {belief_helper}: an explicit `false` arm on named variants")
        else:
            die(f"translator c19: {belief_helper} arm not understood: {rhs_c[:60]!r}")
    for v in belief_leaf + belief_rec:
        if v not in [x for x, _ in where_vars]:
            die(f"translator c19: {belief_helper} names unknown WhereClause::{v}")
    # emitted in AST order: the order of independent match arms carries no meaning
    where_order = [x for x, _ in where_vars]
    belief_leaf.sort(key=where_order.index)
    belief_rec.sort(key=where_order.index)

    meta = fn_body(gate, "meta_permissions")
    meta_table, meta_describe, describe_helper = [], None, None
    for alts, rhs in match_arms(meta, "MetaCommand"):
        ps = perms_of(rhs, "meta_permissions")
        for v, _tail in alts:
            if v == "_":
                die("translator c19: meta_permissions has a wildcard arm (a new META command would be ungated silently)")
            if ps is None:
                hm = re.fullmatch(r"(\w+)\(\s*&?\w+\s*\),?", rhs.strip().strip("{}").strip())
                if hm and hm.group(1) in gate_fns and meta_describe is None:
                    meta_describe, describe_helper = v, hm.group(1)
                    continue
                die(f"translator c19: meta_permissions arm for {v} not understood: {rhs[:60]!r}")
            meta_table.append((v, names(ps, "meta_permissions")))
    if meta_describe is None:
        die("translator c19: meta_permissions no longer hands DESCRIBE to a per-target helper")
    dups = {v for v, _ in meta_table if [x for x, _ in meta_table].count(v) > 1}
    if dups:
        die(f"translator c19: meta_permissions lists {sorted(dups)} twice")
    for v, _ in meta_table:
        if v not in meta_vars:
            die(f"translator c19: meta_permissions names unknown MetaCommand::{v}")
    meta_table.sort(key=lambda r: meta_vars.index(r[0]))

    desc = fn_body(gate, describe_helper)
    describe_table, describe_default = [], None  # (variant, guard, perms)
    seen_unguarded = set()
    for alts, rhs in match_arms(desc, "DescribeTarget"):
        ps = perms_of(rhs, "describe_permissions")
        if ps is None:
            die(f"translator c19: {describe_helper} arm not understood: {rhs[:60]!r}")
        for v, tail in alts:
            if v == "_":
                describe_default = names(ps, "describe_permissions")
                continue
            if v not in describe_vars:
                die(f"translator c19: {describe_helper} names unknown DescribeTarget::{v}")
            guard = ""
            if re.search(r"as_of\s*:\s*Some", tail):
                guard = "as_of"
            elif re.search(r"\bSome\b|\bNone\b|\bif\b", tail):
                die(f"translator c19: {describe_helper} pattern on {v} has a guard this translator does not understand")
            if describe_default is not None or v in seen_unguarded:
                die(f"translator c19: {describe_helper}: the arm for {v} can never be reached (it follows a catch-all for it)")
            if not guard:
                seen_unguarded.add(v)
            describe_table.append((v, guard, names(ps, "describe_permissions")))
    if describe_default is None:
        die(f"translator c19: {describe_helper} lost its default arm")
    # AST order, a guarded arm before the unguarded one of the same target (reachability was checked above)
    describe_table.sort(key=lambda r: (describe_vars.index(r[0]), r[1] == ""))

    clause = fn_body(gate, "clause_permissions")
    clause_table = []
    for alts, rhs in match_arms(clause, "MutationClause"):
        ps = perms_of(rhs, "clause_permissions")
        if ps is None:
            die(f"translator c19: clause_permissions arm not understood: {rhs[:60]!r}")
        for v, _ in alts:
            if v == "_":
                die("translator c19: clause_permissions has a wildcard arm (a new clause would be governed by default)")
            if v not in clause_vars:
                die(f"translator c19: clause_permissions names unknown MutationClause::{v}")
            clause_table.append((v, names(ps, "clause_permissions")))
    clause_table.sort(key=lambda r: clause_vars.index(r[0]))
    kmlf = fn_body(gate, "kml_permissions")
    # the union over the statement's clauses, first mention first, no repeats — however the two loops are spelled
    if (not re.search(r"statement\s*\.\s*clauses", kmlf) or not re.search(r"\bclause_permissions\b", kmlf)
            or not re.search(r"\.contains\(", kmlf) or not re.search(r"\.push\(", kmlf)
            or re.search(r"\bsort|\bdedup|\brev\(|HashSet|BTreeSet|\.filter\(|\.take\(|\.skip\(", kmlf)):
        die("translator c19: kml_permissions is no longer the first-mention union of clause_permissions over statement.clauses")

    # ---- decision.rs ----------------------------------------------------------------------
    dec = cut_tests(strip_comments_keep_strings(read_source(repo, nx + "governance/decision.rs")))
    m = re.findall(r"\bconst\s+MAX_DELEGATION_DEPTH\s*:\s*usize\s*=\s*([0-9_]+)\s*;", dec)
    if len(m) != 1:
        die("translator c19: expected exactly one `const MAX_DELEGATION_DEPTH: usize`")
    max_depth = int(m[0].replace("_", ""))
    # `authorize` with every private helper of the file textually inlined: the stages are keyed on what is tested / called,
    # never on the names of locals, closures or loop variables
    auth = inlined_body(dec, "authorize")
    inl = lambda name: r"/\*" + name + r"\*/"
    stage_markers = {
        "inactive_principal": r"\bprincipal\s*\.\s*status\s*!=\s*status::ACTIVE",
        "suspended_space": r'\bspace\s*\.\s*status\s*==\s*"suspended"',
        "default_classification": [r"\bdefault_classification\(\)", inl("default_classification")],
        "deny_statements": r'\.\s*effect\s*==\s*"deny"',
        "owner": r"\bself\s*\.\s*is_owner\b",
        "candidates": r"\bself\s*\.\s*candidates\b",
        "allow_statements": r'\.\s*effect\s*(?:!=|==)\s*"allow"',
        "choose_least_restrictive": r"\.\s*min_by_key\(",
        "approvals": r"\bapprovals_required\s*>\s*0",
    }
    stages = order_of(auth, stage_markers)
    for tag in ("deny_statements", "allow_statements", "choose_least_restrictive", "approvals", "inactive_principal", "suspended_space"):
        rx = stage_markers[tag]
        if len(re.findall(rx, auth)) != 1:
            die(f"translator c19: authorize: expected exactly one test for stage {tag}, found {len(re.findall(rx, auth))}")
    pos = sorted((first_pos(auth, rx), tag) for tag, rx in stage_markers.items())
    # the refusals: every `return` whose value is the Deny authorization (built by a local closure of any name, by a
    # helper, or in place); each must sit right after the stage that guards it
    cm = re.search(r"let\s+(\w+)\s*=\s*\|[^|]*\|\s*Authorization\s*\{[^{}]*?decision\s*:\s*Decision::Deny", auth, re.S)
    deny_closure = cm.group(1) if cm else None
    deny_after = []
    for mm in re.finditer(r"\breturn\b", auth):
        j, depth = mm.end(), 0
        while j < len(auth) and not (auth[j] == ";" and depth == 0):
            if auth[j] in "([{": depth += 1
            elif auth[j] in ")]}": depth -= 1
            j += 1
        value = auth[mm.end():j]
        is_deny = ("Decision::Deny" in value) or (deny_closure is not None and re.match(r"\s*" + deny_closure + r"\s*\(", value))
        if is_deny:
            prev = [t for q, t in pos if q < mm.start()]
            deny_after.append(prev[-1] if prev else "<start>")
    # the owner's synthetic candidate: whatever is pushed between the owner test and the walk over the held candidates
    o0, o1 = first_pos(auth, stage_markers["owner"]), first_pos(auth, stage_markers["candidates"])
    owner_block = auth[o0:o1] if 0 <= o0 < o1 else ""
    owner_export = bool(re.search(r"\bexport\s*:\s*true", owner_block))
    owner_deleg = bool(re.search(r"\bdelegation_allowed\s*:\s*true", owner_block))
    rd = fn_body(dec, "resolve_delegation")
    if not re.search(r"if\s+depth\s*>=\s*MAX_DELEGATION_DEPTH\s*\{\s*return\s+Ok\(None\)", rd):
        die("translator c19: resolve_delegation lost its `depth >= MAX_DELEGATION_DEPTH` bound")
    if len(re.findall(r"depth\s*\+\s*1", rd)) != 2:
        die("translator c19: resolve_delegation no longer recurses with depth + 1 in exactly two places")
    # the root-delegator branch: the action test and the three containment tests sit inside ONE
    # `parent.candidates.iter().any(|candidate| …)` closure (so one and the same candidate must hold the action AND contain
    # the Delegation's bounds), and the containment tests on `candidate` occur nowhere else
    def paren_block(text, start):
        i = text.index("(", start); depth = 0; j = i
        while j < len(text):
            if text[j] == "(": depth += 1
            elif text[j] == ")":
                depth -= 1
                if depth == 0: return text[i + 1:j]
            j += 1
        die("translator c19: unbalanced parentheses in resolve_delegation")
    root_branch = rd
    mb0 = re.search(r"if\s*!\s*\w+\s*\.\s*parent_delegation\s*\.\s*is_empty\(\)\s*\{", rd)
    if mb0:
        blk = block_after(rd, mb0.end() - 1)
        root_branch = rd[rd.index(blk, mb0.end() - 1) + len(blk):]
    closure_ms = list(re.finditer(r"\.\s*candidates\s*\.\s*iter\(\)\s*\.\s*any\s*\(\s*\|\s*(\w+)\s*\|", root_branch))
    one_closure = False
    if len(closure_ms) == 1:
        cp = closure_ms[0].group(1)
        closure = paren_block(root_branch, root_branch.rindex("any", 0, closure_ms[0].end()))
        inside = [cp + r"\s*\.\s*delegation_allowed\b", cp + r"\s*\.\s*actions\b[^;]*?\.\s*as_str\(\)",
                  cp + r"\s*\.\s*scope\s*\.\s*contains\(", cp + r"\s*\.\s*conditions\s*\.\s*contains\(", cp + r"\s*\.\s*constraints\s*\.\s*contains\("]
        anywhere = [r"\.\s*scope\s*\.\s*contains\(", r"\.\s*conditions\s*\.\s*contains\(", r"\.\s*constraints\s*\.\s*contains\(", r"\.\s*delegation_allowed\b(?!\s*:)"]
        one_closure = (all(re.search(mk, closure, re.S) for mk in inside)
                       and all(len(re.findall(mk, root_branch)) == 1 for mk in anywhere)
                       and re.search(r"\|\|\s*\w+\s*\.\s*is_owner\b", root_branch) is not None)
    # the re-delegation branch: the Principal who re-delegated is looked up and must be ACTIVE before the recursion
    # into the linked parent (repair of finding F-C19-4)
    m_branch = mb0
    if not m_branch:
        die("translator c19: resolve_delegation lost its `if !….parent_delegation.is_empty()` branch")
    branch = block_after(rd, m_branch.end() - 1)
    m_live = re.search(r"find_principal\(\s*&?\s*\w+\s*\.\s*delegator_principal\s*\)", branch)
    m_rec = re.search(r"\bresolve_delegation\(", branch)
    if not m_rec:
        die("translator c19: the re-delegation branch no longer resolves the linked parent Delegation")
    # … and, after the recursion, the link is refused unless the inherited candidate CONTAINS the child's scope, conditions and
    # constraints; the candidate keeps the child's own bounds (no `.intersect(` / `.tighten(` anywhere in resolve_delegation)
    after_rec = branch[m_rec.end():]
    guard = re.search(r"if\s+((?:[^{};]|\n)*?)\{\s*return\s+Ok\(None\)", after_rec)
    redeleg_contained = bool(guard and all(re.search(r"!\s*\w+\s*\.\s*" + dim + r"\s*\.\s*contains\(", guard.group(1)) for dim in ("scope", "conditions", "constraints"))
                             and guard.group(1).count("||") >= 2 and "&&" not in guard.group(1)
                             and not re.search(r"\.\s*(?:intersect|tighten)\s*\(", rd))
    redelegator_checked = bool(m_live and m_live.start() < m_rec.start()
                               and re.search(r"status\s*==\s*status::ACTIVE", branch[m_live.start():m_rec.start()])
                               and re.search(r"return\s+Ok\(None\)", branch[m_live.start():m_rec.start()]))

    # ---- nexus.rs: Session::execute arms --------------------------------------------------
    nexus = cut_tests(strip_comments_keep_strings(read_source(repo, nx + "nexus.rs")))
    m = re.search(r"impl\s+Executor\s+for\s+Session\s*\{", nexus)
    if not m:
        die("translator c19: `impl Executor for Session` not found")
    # Session's `execute` with the private helpers of nexus.rs inlined (a `run_kml` / `run_kql` / `run_meta` split, or `gate`,
    # `settle`, `authority` being methods, does not change what happens in which order)
    if nexus.index("fn execute") < m.start():
        die("translator c19: another `fn execute` precedes `impl Executor for Session` in nexus.rs")
    ex = inlined_body(nexus[m.start():], "execute")
    exec_rows = []
    arm_pos = [(mm.end() - 1, mm.group(1)) for mm in re.finditer(r"Command::(\w+)\(\w+\)\s*=>\s*\{", ex)]
    if sorted(v for _, v in arm_pos) != sorted(command_vars):
        die(f"translator c19: Session::execute arms {[v for _, v in arm_pos]} differ from Command variants {command_vars}")
    for p0, v in arm_pos:
        body = block_after(ex, p0)
        lock = sorted(set(re.findall(r"\block\s*\.\s*(read|write)\(\)", body)))
        gatef = sorted(set(re.findall(r"gate::(\w+_permissions)\(", body)))
        execu = sorted(set(re.findall(r"crate::(\w+)::execute\(", body)))
        if len(lock) != 1 or len(gatef) != 1 or len(execu) != 1:
            die(f"translator c19: Session::execute arm {v}: expected one lock / gate table / executor, found {lock} {gatef} {execu}")
        order = order_of(body, {
            "lock": r"\block\s*\.\s*" + lock[0] + r"\(\)",
            "resolve": [r"EffectiveAuthority::resolve\(", r"\bself\s*\.\s*authority\(", inl("authority")],
            "permissions": r"gate::" + gatef[0] + r"\(",
            "gate": [r"approval::resolve\(", r"\bself\s*\.\s*gate\(", inl("gate")],
            "execute": r"crate::" + execu[0] + r"::execute\(",
            "settle": [r"\.\s*spend\(", r"\bself\s*\.\s*settle\(", inl("settle")],
        })
        exec_rows.append((v, lock[0], gatef[0], execu[0], order))
    exec_rows.sort(key=lambda r: command_vars.index(r[0]))

    # ---- which control-plane mutators the executors name ------------------------------------
    mutators = ["ensure_principal", "set_principal_status", "put_group", "create_binding", "revoke_binding",
                "create_grant", "revoke_grant", "create_delegation", "revoke_delegation", "publish_policy",
                "request_approval", "approve", "consume_approval", "put_space", "open_or_create_space",
                "adopt_unowned_spaces", "record_mutation", "record_decision", "governance_mut"]
    gstore = strip_comments_keep_strings(read_source(repo, nx + "governance/store.rs"))
    for mname in mutators[:13] + ["record_mutation", "record_decision"]:
        if not re.search(r"\bpub\s+async\s+fn\s+" + mname + r"\b", gstore):
            die(f"translator c19: governance/store.rs no longer defines the mutator `{mname}` (update the mutator list)")
    pub_async = re.findall(r"\bpub\s+async\s+fn\s+(\w+)\s*\(\s*&self", gstore)
    readers = {"open", "reopen", "flush", "find_principal", "principal_at", "space_at", "find_group", "groups_of",
               "bindings_of", "grants_for", "grants_at", "delegations_at", "bindings_at", "groups_of_at", "delegation",
               "grant", "delegations_to", "active_policy", "policy_at", "policy_versions", "granted_approvals",
               "find_approval", "read_audit"}
    unknown = [f for f in pub_async if f not in mutators and f not in readers]
    if unknown:
        die(f"translator c19: governance/store.rs has public methods this translator has not classified: {unknown}")
    modules = {"kml": [], "kql": [], "meta": [], "projection": [], "capsule": [], "tx": ["tx.rs"], "view": ["view.rs"]}
    for mod in ["kml", "kql", "meta", "projection", "capsule"]:
        d = os.path.join(repo, nx, mod)
        if not os.path.isdir(d):
            die(f"translator c19: module directory {mod}/ not found")
        for root, _, files in os.walk(d):
            for f in sorted(files):
                if f.endswith(".rs"):
                    modules[mod].append(os.path.relpath(os.path.join(root, f), os.path.join(repo, nx)))
    calls = []
    for mod, files in modules.items():
        named = []
        for f in files:
            s = cut_tests(strip_comments_keep_strings(read_source(repo, nx + f), blank=True))
            for mname in mutators:
                if re.search(r"\.\s*" + mname + r"\s*\(", s) and mname not in named:
                    named.append(mname)
        calls.append((mod, sorted(named)))

    # ---- tx.rs: the two control-plane touches a commit makes ------------------------------
    txs = cut_tests(strip_comments_keep_strings(read_source(repo, nx + "tx.rs"), blank=True))
    # (a) the only `governance_mut()` of tx.rs sits — in whatever function — behind a guard that skips every staged element
    #     that is not new (`if !<x>.is_new { continue; }`, or the positive form wrapping the rest)
    gm_calls = list(re.finditer(r"\.\s*governance_mut\s*\(", txs))
    tx_gm_guarded = False
    if len(gm_calls) == 1:
        fn_starts = [mm.start() for mm in re.finditer(r"\bfn\s+\w+", txs) if mm.start() < gm_calls[0].start()]
        host = block_after(txs, fn_starts[-1]) if fn_starts else ""
        k = host.find("governance_mut")
        before = host[:k] if k >= 0 else ""
        tx_gm_guarded = bool(re.search(r"if\s*!\s*[\w.]+\.\s*is_new\s*\{\s*(?:continue|return\b[^;]*)\s*;?\s*\}", before)
                             or re.search(r"if\s+[\w.]+\.\s*is_new\s*\{(?![^{}]*\})", before))
    # (b) the only `record_mutation` of tx.rs replays, in order, the audit entries the statement itself deferred
    rm_calls = re.findall(r"\.\s*record_mutation\s*\(", txs)
    tx_rm_deferred = len(rm_calls) == 1 and (
        re.search(r"for\s+(\w+)\s+in\s+(?:std::mem::take\(\s*&mut\s+self\s*\.\s*governance_audit\s*\)|self\s*\.\s*governance_audit\s*\.\s*drain\(\s*\.\.\s*\))\s*\{[^{}]*?\.\s*record_mutation\(\s*\1\s*\)", txs, re.S) is not None)
    elem_ops = ["classify", "elevate_authority", "quarantine", "release"]
    elem_calls = []
    for mod, files in modules.items():
        named = []
        for f in files:
            s2 = cut_tests(strip_comments_keep_strings(read_source(repo, nx + f), blank=True))
            for op in elem_ops:
                if re.search(r"governance::element::" + op + r"\b|element::" + op + r"\s*\(", s2) and op not in named:
                    named.append(op)
        elem_calls.append((mod, named))

    # ---- the read path: where element rows are read, and where content-bearing indexes are probed -----------------
    # Call graph over kql/*.rs, meta/*.rs, projection/*.rs, capsule/mod.rs (export). A site inside a private fn is attributed
    # to the pub / pub(crate) functions that reach it through private fns only, so extracting or inlining a private helper
    # does not change the facts.
    read_files = list(modules["kql"]) + list(modules["meta"]) + list(modules["projection"]) + ["capsule/mod.rs"]
    elem_coll = r"\.\s*(?:elements\s*\(|concepts\s*\(\)|propositions\s*\(\)|assertions\s*\(\)|evidence\s*\(\)|activities\s*\(\)|element_versions\s*\(\))"
    raw_names = [r"\.\s*get_element\s*\(", r"\.\s*element_at\s*\(", r"\.\s*elements_at\s*\(", r"\.\s*find_concept\s*\(", r"\.\s*find_concept_by_key\s*\(",
                 r"\.\s*find_proposition\s*\(", r"\bview::render\s*\("]
    probe_names = [r"\.\s*query_all_ids\s*\(", r"\.\s*query_ids\s*\(", r"\.\s*query_last_ids\s*\(", r"\.\s*search_ids\s*\(", r"\.\s*search_advanced\s*\(", r"\.\s*search\s*\(\s*Query"]
    fns = {}   # "file::name" -> (public?, body)
    for f in read_files:
        src_f = cut_tests(strip_comments_keep_strings(read_source(repo, nx + f), blank=True))
        for mm in re.finditer(r"((?:pub(?:\s*\([^)]*\))?\s+)?)(?:async\s+)?fn\s+(\w+)\s*(?:<[^>{}()]*>)?\s*\(", src_f):
            try:
                body = block_after(src_f, mm.end())
            except SystemExit:
                raise
            except Exception:
                continue
            fns[f + "::" + mm.group(2)] = (bool(mm.group(1).strip()), body)
    by_name = {}
    for k in fns:
        by_name.setdefault(k.split("::")[1], []).append(k)
    callers = {k: set() for k in fns}
    for k, (_, body) in fns.items():
        f = k.split("::")[0]
        for name, targets in by_name.items():
            if re.search(r"(?<![\w])" + name + r"\s*(?:::<[^>()]*>)?\(", body):
                tg = [t for t in targets if t.startswith(f + "::")] or targets
                for t in tg:
                    if t != k:
                        callers[t].add(k)
    def owners(k, seen=()):
        if fns[k][0] or k in seen:
            return {k} if fns[k][0] else set()
        out_ = set()
        for c in callers[k]:
            out_ |= owners(c, seen + (k,))
        return out_ or {k + " (private, never called)"}
    raw_owner_set, probe_owner_set = set(), set()
    for k, (_, body) in fns.items():
        raw_here = any(re.search(rx, body) for rx in raw_names) or (re.search(r"\.\s*get_as\s*(?:::<[^>()]*>)?\(|\.\s*get\s*\(\s*\w+\s*\)\s*\.await", body) and re.search(elem_coll, body))
        if raw_here:
            raw_owner_set |= owners(k)
        if any(re.search(rx, body) for rx in probe_names) and (re.search(elem_coll, body) or re.search(r"get_bm25_index\s*\(", body)):
            probe_owner_set |= owners(k)
    raw_owners, probe_owners = sorted(raw_owner_set), sorted(probe_owner_set)
    gate_fns_list = ["kql/mod.rs::admit", "kql/mod.rs::candidates", "kql/mod.rs::load"]
    kqlmod = cut_tests(strip_comments_keep_strings(read_source(repo, nx + "kql/mod.rs"), blank=True))
    g_load, g_cand, g_admit = inlined_body(kqlmod, "load"), inlined_body(kqlmod, "candidates"), inlined_body(kqlmod, "admit")
    adm = [r"\badmit\s*\(", r"/\*admit\*/"]
    def before(text, first, then):
        a_, b_ = first_pos(text, first), first_pos(text, then)
        return 0 <= a_ < b_
    gate_admits = (before(g_load, [r"\.\s*get_element\s*\(", r"\.\s*element_at\s*\("], adm)
                   and before(g_cand, r"\.\s*elements_at\s*\(", adm)
                   and re.search(r"\bmay_read\s*\([^;]*?\)\s*\?", g_admit, re.S) is not None
                   # asked for EVERY element: nothing conditional, no lookup and no early return stands between the entry of
                   # `admit` and its one `may_read` call (a remembered decision would show up exactly there)
                   and len(re.findall(r"\bmay_read\s*\(", g_admit)) == 1
                   and not re.search(r"\breturn\b|\bif\b|\bmatch\b|\.\s*get\s*\(|contains_key|\.\s*entry\s*\(|\.\s*insert\s*\(", g_admit[:max(0, first_pos(g_admit, r"\bmay_read\s*\("))])
                   and before(g_admit, r"\bmay_read\s*\(", r"\bview::render\s*\(")
                   and before(g_admit, r"\bview::render\s*\(", r"\bredact::apply\s*\("))

    # ---- emit -----------------------------------------------------------------------------
    L = []
    A = L.append
    A("/- GENERATED by bin/translate/c19_gate_tables.py from /repo (do not edit).")
    A("   Sources: governance/{permission,gate,decision,store}.rs, nexus.rs, kml/ kql/ meta/ projection/ capsule/ tx.rs view.rs,")
    A("   anda_kip/src/ast.rs. -/")
    A("namespace AndaVerif.Gen.GateTables")
    A("")
    A("/-- `Permission::ALL` as (variant, wire name, family), registry order. -/")
    A("def permissionRegistry : List (String × String × String) := [")
    A(",\n".join(f"  ({lean_str(v)}, {lean_str(n)}, {lean_str(f)})" for v, n, f in registry))
    A("]")
    A("")
    A("def permissionNames : List String := permissionRegistry.map (fun r => r.2.1)")
    A("")
    A("/-- wire names for which `Permission::is_always_audited` holds -/")
    A(f"def alwaysAuditedNames : List String := {lean_list(always)}")
    A("")
    A(f"def maxDelegationDepth : Nat := {max_depth}")
    A("")
    A("/-- textual order of the stages of `EffectiveAuthority::authorize` -/")
    A(f"def authorizeStages : List String := {lean_list(stages)}")
    A("/-- for each `return deny(…)` in `authorize`, the stage marker it follows -/")
    A(f"def authorizeDenyReturnsAfter : List String := {lean_list(deny_after)}")
    A(f"def ownerCandidateExport : Bool := {'true' if owner_export else 'false'}")
    A(f"def ownerCandidateMayDelegate : Bool := {'true' if owner_deleg else 'false'}")
    A("/-- resolve_delegation, root-delegator branch: delegable / holds-the-action / scope, conditions and constraints containment are")
    A("    all tested on the SAME candidate, inside the one `parent.candidates.iter().any(|candidate| …)` closure -/")
    A(f"def conferralTestsOneCandidate : Bool := {'true' if one_closure else 'false'}")
    A("/-- resolve_delegation, re-delegation branch: the re-delegating Principal is looked up and must be ACTIVE before the recursion -/")
    A(f"def redelegatorMustBeActive : Bool := {'true' if redelegator_checked else 'false'}")
    A("/-- resolve_delegation, re-delegation branch: refused unless the inherited candidate contains the child's scope, conditions AND")
    A("    constraints; the child's own bounds are kept (no intersect / tighten) -/")
    A(f"def redelegationGuardedByContainment : Bool := {'true' if redeleg_contained else 'false'}")
    A("")
    A("/-! ### KQL -/")
    A(f"def kqlBase : List String := {lean_list(kql_base)}")
    A(f"def kqlAsOfAdds : List String := {lean_list(kql_as_of)}")
    A(f"def kqlBeliefAdds : List String := {lean_list(kql_belief)}")
    A(f"def whereClauseVariants : List String := {lean_list([v for v, _ in where_vars])}")
    A("/-- the `WhereClause` variants whose payload nests further clauses -/")
    A(f"def whereClauseNesting : List String := {lean_list(where_nesting)}")
    A(f"def beliefLeafVariants : List String := {lean_list(belief_leaf)}")
    A(f"def beliefRecurseVariants : List String := {lean_list(belief_rec)}")
    A("")
    A("/-! ### META -/")
    A(f"def metaCommandVariants : List String := {lean_list(meta_vars)}")
    A(f"def metaDescribeVariant : String := {lean_str(meta_describe)}")
    A("def metaTable : List (String × List String) := [")
    A(",\n".join(f"  ({lean_str(v)}, {lean_list(ps)})" for v, ps in meta_table))
    A("]")
    A(f"def describeTargetVariants : List String := {lean_list(describe_vars)}")
    A("/-- (target, guard, permissions); guard \"as_of\" = only when the target carries `as_of: Some(_)` -/")
    A("def describeTable : List (String × String × List String) := [")
    A(",\n".join(f"  ({lean_str(v)}, {lean_str(g)}, {lean_list(ps)})" for v, g, ps in describe_table))
    A("]")
    A(f"def describeDefault : List String := {lean_list(describe_default)}")
    A("")
    A("/-! ### KML -/")
    A(f"def mutationClauseVariants : List String := {lean_list(clause_vars)}")
    A("def clauseTable : List (String × List String) := [")
    A(",\n".join(f"  ({lean_str(v)}, {lean_list(ps)})" for v, ps in clause_table))
    A("]")
    A("")
    A("/-! ### Session::execute -/")
    A("/-- (Command variant, lock, gate table, executor module, textual order of the steps) -/")
    A("def executeArms : List (String × String × String × String × List String) := [")
    A(",\n".join(f"  ({lean_str(v)}, {lean_str(l)}, {lean_str(g)}, {lean_str(e)}, {lean_list(o)})" for v, l, g, e, o in exec_rows))
    A("]")
    A("")
    A("/-- the host-only mutators of the control plane (governance/store.rs, store/space.rs) and of an element's governance block -/")
    A(f"def controlPlaneMutators : List String := {lean_list(mutators)}")
    A("/-- per executor module: the control-plane mutators its source names at all -/")
    A("def executorMutatorCalls : List (String × List String) := [")
    A(",\n".join(f"  ({lean_str(mod)}, {lean_list(ns)})" for mod, ns in calls))
    A("]")
    A("/-- tx.rs: the only `governance_mut()` is in `propagate_governance`, after `if !staged.is_new { continue; }` -/")
    A(f"def txGovernanceMutOnlyOnNewElements : Bool := {'true' if tx_gm_guarded else 'false'}")
    A("/-- tx.rs: the only `record_mutation` is the replay of audit entries deferred by the statement itself (append) -/")
    A(f"def txRecordMutationOnlyDeferredAppend : Bool := {'true' if tx_rm_deferred else 'false'}")
    A("/-- per executor module: the element-governance operations (governance/element.rs) it names -/")
    A("def executorElementGovernanceCalls : List (String × List String) := [")
    A(",\n".join(f"  ({lean_str(mod)}, {lean_list(ns)})" for mod, ns in elem_calls))
    A("]")
    A("")
    A("/-! ### The read path -/")
    A("/-- the pub / pub(crate) functions of kql/ meta/ projection/ capsule(export) that read element rows (directly or through private helpers) -/")
    A(f"def rawElementReadOwners : List String := {lean_list(raw_owners)}")
    A("/-- the read choke point: `Context::load`, `Context::candidates` (historical seeding) and `Context::admit` itself -/")
    A(f"def readGateFunctions : List String := {lean_list(gate_fns_list)}")
    A("/-- in `load` and `candidates` every row read is handed to `admit`; `admit` asks `may_read(..)?` before it renders, and redacts what it rendered -/")
    A(f"def gateAdmitsAfterEveryRead : Bool := {'true' if gate_admits else 'false'}")
    A("/-- the pub / pub(crate) functions that probe a content-bearing index of an element collection (B-tree filters, BM25) for candidate ids -/")
    A(f"def indexProbeOwners : List String := {lean_list(probe_owners)}")
    A("")
    A("/-! ### kernel-checked facts about the tables -/")
    A("theorem gen_raw_reads_only_in_gate : rawElementReadOwners.all (fun f => readGateFunctions.contains f) = true := by decide")
    A("theorem gen_gate_admits_after_every_read : gateAdmitsAfterEveryRead = true := by decide")
    A("/-- the known places where row *content* reaches candidate selection before `admit` (findings F-C19-1/2 live in the callers of")
    A("    `candidates` and in `search`; `describe.rs::run` is the PRIMER count, taken only when `reads_whole_space`): a new one must be looked at -/")
    A('theorem gen_index_probe_owners : indexProbeOwners = ["kql/mod.rs::active_concepts", "kql/mod.rs::candidates", "meta/describe.rs::run", "meta/inspect.rs::search"] := by decide')
    A(f"theorem gen_max_delegation_depth : maxDelegationDepth = {max_depth} := by decide")
    A("theorem gen_authorize_stage_order : authorizeStages =")
    A('    ["inactive_principal", "suspended_space", "default_classification", "deny_statements", "owner", "candidates",')
    A('     "allow_statements", "choose_least_restrictive", "approvals"] := by decide')
    A("theorem gen_authorize_deny_returns : authorizeDenyReturnsAfter =")
    A('    ["inactive_principal", "suspended_space", "deny_statements", "choose_least_restrictive"] := by decide')
    A("theorem gen_owner_candidate : ownerCandidateExport = true ∧ ownerCandidateMayDelegate = true := by decide")
    A("theorem gen_conferral_tests_one_candidate : conferralTestsOneCandidate = true := by decide")
    A("theorem gen_redelegator_must_be_active : redelegatorMustBeActive = true := by decide")
    A("theorem gen_redelegation_guarded_by_containment : redelegationGuardedByContainment = true := by decide")
    A("theorem gen_permission_names_nodup : permissionNames.Nodup := by decide")
    A("end AndaVerif.Gen.GateTables")
    write_gen(gen, "GateTables.lean", "\n".join(L) + "\n")


if __name__ == "__main__":
    main()
