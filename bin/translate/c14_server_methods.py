#!/usr/bin/env python3
"""c14_server_methods.py <repo_root> <gen_dir>

Regenerates lean/AndaVerif/Gen/ServerMethods.lean from
  rs/anda_db_server/src/api/mod.rs   (method tables, dispatch matches, entry-point wiring,
                                      order inside execute_rpc, cancellation policy per effect,
                                      require_auth skeleton)
  rs/anda_db_server/src/lib.rs       (build_router: routes and the position of the auth route layer)

Strict about meaning, tolerant about layout: works on a comment-stripped copy, keys on names
and nesting. A marker that is missing / duplicated / ambiguous is an error (exit 1, one line on
stderr), never a default.
"""
import os, re, sys


def die(msg):
    print(f"c14_server_methods: {msg}", file=sys.stderr)
    sys.exit(1)


def strip_comments(src):
    """Removes // and /* */ comments; keeps string literals intact (handles escapes, raw strings
    without hashes are treated like normal strings which is enough for this file)."""
    out, i, n = [], 0, len(src)
    while i < n:
        c = src[i]
        if c == '"':
            j = i + 1
            while j < n and src[j] != '"':
                j += 2 if src[j] == "\\" else 1
            out.append(src[i:j + 1])
            i = j + 1
        elif c == "'" and (cm := re.compile(r"'(\\.[^']{0,8}|[^\\'])'").match(src, i)):
            # a char literal (lifetimes such as `'_` / `'static` never end in a quote)
            out.append(cm.group(0))
            i = cm.end()
        elif src.startswith("//", i):
            while i < n and src[i] != "\n":
                i += 1
        elif src.startswith("/*", i):
            depth, i = 1, i + 2
            while i < n and depth:
                if src.startswith("/*", i):
                    depth, i = depth + 1, i + 2
                elif src.startswith("*/", i):
                    depth, i = depth - 1, i + 2
                else:
                    i += 1
        else:
            out.append(c)
            i += 1
    return "".join(out)


def match_close(src, i, open_c="{", close_c="}"):
    """src[i] == open_c; returns index of the matching close (string-literal aware)."""
    assert src[i] == open_c, (src[i - 20:i + 20], open_c)
    depth, n = 0, len(src)
    while i < n:
        c = src[i]
        if c == '"':
            i += 1
            while i < n and src[i] != '"':
                i += 2 if src[i] == "\\" else 1
        elif c == open_c:
            depth += 1
        elif c == close_c:
            depth -= 1
            if depth == 0:
                return i
        i += 1
    die(f"unbalanced {open_c}{close_c}")


def cut_test_module(src):
    m = re.search(r"#\[cfg\(test\)\]\s*mod\s+\w+\s*\{", src)
    if not m:
        return src
    end = match_close(src, m.end() - 1)
    return src[:m.start()] + src[end + 1:]


def unique(pattern, src, what, flags=0):
    ms = list(re.finditer(pattern, src, flags))
    if len(ms) != 1:
        die(f"expected exactly one {what}, found {len(ms)}")
    return ms[0]


def fn_body(src, name):
    """Body text (inside the outer braces) of `fn name`, plus its signature text."""
    m = unique(r"\bfn\s+" + re.escape(name) + r"\s*(<|\()", src, f"fn {name}")
    # the body starts at the first `{` at paren/angle depth 0 after the parameter list
    i = src.index("(", m.start())
    j = match_close(src, i, "(", ")")
    k = src.index("{", j)
    # a `where` clause may contain no braces here; a return type may contain none either
    end = match_close(src, k)
    return src[k + 1:end], src[m.start():k]


def impl_block(src, ty):
    m = unique(r"\bimpl\s+" + re.escape(ty) + r"\s*\{", src, f"impl {ty}")
    end = match_close(src, m.end() - 1)
    return src[m.end():end]


def enum_variants(src, name):
    m = unique(r"\benum\s+" + re.escape(name) + r"\s*\{", src, f"enum {name}")
    end = match_close(src, m.end() - 1)
    body = src[m.end():end]
    vs = [v.strip() for v in body.split(",") if v.strip()]
    for v in vs:
        if not re.fullmatch(r"[A-Z]\w*", v):
            die(f"enum {name}: unexpected variant syntax {v!r}")
    return vs


def split_top(s, sep=","):
    """Split on `sep` at bracket depth 0 (string aware)."""
    parts, depth, cur, i, n = [], 0, [], 0, len(s)
    while i < n:
        c = s[i]
        if c == '"':
            j = i + 1
            while j < n and s[j] != '"':
                j += 2 if s[j] == "\\" else 1
            cur.append(s[i:j + 1])
            i = j + 1
            continue
        if c == "|" and depth == 0 and "".join(cur).strip() in ("", "move"):
            # closure parameter list `|a, b, c|`
            j = s.index("|", i + 1)
            cur.append(s[i:j + 1])
            i = j + 1
            continue
        if c in "([{":
            depth += 1
        elif c in ")]}":
            depth -= 1
        if c == sep and depth == 0:
            parts.append("".join(cur))
            cur = []
        else:
            cur.append(c)
        i += 1
    if "".join(cur).strip():
        parts.append("".join(cur))
    return parts


def find_matches(body):
    """All `match <expr> {` blocks of body: (scrutinee text, inner text, start, end)."""
    out = []
    for m in re.finditer(r"\bmatch\b", body):
        # the scrutinee runs up to the first `{` at bracket depth 0
        i, depth = m.end(), 0
        while i < len(body):
            c = body[i]
            if c == '"':
                i += 1
                while i < len(body) and body[i] != '"':
                    i += 2 if body[i] == "\\" else 1
            elif c in "([":
                depth += 1
            elif c in ")]":
                depth -= 1
            elif c == "{" and depth == 0:
                break
            elif c == ";":
                i = -1
                break
            i += 1
        if i < 0 or i >= len(body):
            continue
        end = match_close(body, i)
        out.append((" ".join(body[m.end():i].split()), body[i + 1:end], m.start(), end))
    return out


def arms_of(inner, what):
    """Arms `pat => expr` of the inside of a match block."""
    arms = []
    # arms are separated by top-level commas; a block arm `=> { ... }` may omit the comma
    i, n = 0, len(inner)
    while i < n:
        while i < n and inner[i] in " \t\r\n,":
            i += 1
        if i >= n:
            break
        j = inner.find("=>", i)
        if j < 0:
            die(f"{what}: dangling text in match: {inner[i:i + 40]!r}")
        pat = inner[i:j].strip()
        k = j + 2
        while k < n and inner[k] in " \t\r\n":
            k += 1
        if k < n and inner[k] == "{":
            e = match_close(inner, k)
            expr = inner[k + 1:e]
            i = e + 1
        else:
            depth, e = 0, k
            while e < n:
                c = inner[e]
                if c == '"':
                    e += 1
                    while e < n and inner[e] != '"':
                        e += 2 if inner[e] == "\\" else 1
                elif c in "([{":
                    depth += 1
                elif c in ")]}":
                    depth -= 1
                elif c == "," and depth == 0:
                    break
                e += 1
            expr = inner[k:e]
            i = e + 1
        arms.append((pat, " ".join(expr.split())))
    return arms


def the_match(body, what, arm_pattern_re):
    """Arms of the unique match in body whose arm patterns (all but `_`) look like arm_pattern_re.
    The scrutinee's spelling and the name of the matched variable do not matter."""
    found = []
    for scrut, inner, _, _ in find_matches(body):
        try_arms = arms_of(inner, what)
        pats = [p for p, _ in try_arms if p != "_"]
        if pats and all(re.fullmatch(arm_pattern_re, q.strip()) for p in pats for q in p.split("|")):
            found.append(try_arms)
    if len(found) != 1:
        die(f"expected exactly one table match in {what}, found {len(found)}")
    return found[0]


def params_of(sig):
    """[(pattern text, type text)] of a fn signature text `fn name<..>(a: A, b: B) -> R where ..`."""
    i = sig.index("(")
    j = match_close(sig, i, "(", ")")
    out = []
    for part in split_top_angle(sig[i + 1:j]):
        part = part.strip()
        if not part:
            continue
        k = top_colon(part)
        if k < 0:
            out.append((part, ""))
        else:
            out.append((part[:k].strip(), " ".join(part[k + 1:].split())))
    return out


def top_colon(part):
    depth = 0
    for k, c in enumerate(part):
        if c in "(<[":
            depth += 1
        elif c in ")>]":
            depth -= 1
        elif c == ":" and depth == 0 and part[k:k + 2] != "::" and (k == 0 or part[k - 1] != ":"):
            return k
    return -1


def split_top_angle(s):
    """split on commas at depth 0 of () [] {} <> (for parameter lists; `->` is not a bracket)"""
    parts, depth, cur = [], 0, []
    for k, c in enumerate(s):
        if c in "([{<":
            depth += 1
        elif c in ")]}":
            depth -= 1
        elif c == ">" and (k == 0 or s[k - 1] != "-"):
            depth -= 1
        if c == "," and depth == 0:
            parts.append("".join(cur))
            cur = []
        else:
            cur.append(c)
    parts.append("".join(cur))
    return parts


def all_fns(src):
    return sorted(set(re.findall(r"\bfn\s+([A-Za-z_]\w*)\s*(?:<|\()", src)))


def inlined(src, name, stack=()):
    """Body of the unique `fn name` with every call of a free function / `self.` / `Self::` function that
    is defined ONCE in the same file replaced by `{ /*call:callee*/ (args) ; <its body, inlined> }`: a
    marker scan sees the same effects in the same order whether or not a block lives in a private helper."""
    body, _ = fn_body(src, name)
    if len(stack) > 4:
        return body
    single = {f for f in all_fns(src) if len(re.findall(r"\bfn\s+" + f + r"\s*(?:<|\()", src)) == 1}
    names = single - {name} - set(stack)
    pat = re.compile(r"(?:\bself\s*\.\s*|\bSelf::\s*|(?<![\w.:]))([A-Za-z_]\w*)\s*(?:::<[^>()]*>)?\(")
    out, i = [], 0
    while True:
        m = pat.search(body, i)
        if not m:
            out.append(body[i:])
            break
        callee = m.group(1)
        if callee not in names or re.search(r"\bfn\s*$", body[:m.start()]):
            out.append(body[i:m.end()])
            i = m.end()
            continue
        j = match_close(body, m.end() - 1, "(", ")")
        out.append(body[i:m.start()] + "{ /*call:" + callee + "*/ (" + body[m.end():j] + ") ; " + inlined(src, callee, stack + (name,)) + " }")
        i = j + 1
    return "".join(out)


def uses(name, text):
    return bool(name) and re.search(r"(?<![\w.])" + re.escape(name) + r"\b", text) is not None


def parse_table(src, ty):
    body, _ = fn_body(impl_block(src, ty), "parse")
    arms = the_match(body, f"{ty}::parse", r'"[^"\\]*"')
    rows, saw_default = [], False
    for pat, expr in arms:
        if pat == "_":
            if not re.fullmatch(r"(return\s+)?None", expr):
                die(f"{ty}::parse: default arm does not answer None: {expr!r}")
            saw_default = True
            continue
        em = re.fullmatch(r"(?:Some\s*\(\s*)?\(\s*(?:Self|" + ty + r")::(\w+)\s*,\s*(?:MethodEffect::)?(Read|Mutating)\s*,?\s*\)(?:\s*\))?", expr)
        if not em:
            die(f"{ty}::parse: arm {pat} is not `(Self::Variant, Read|Mutating)`: {expr!r}")
        for q in pat.split("|"):
            rows.append((q.strip().strip('"'), em.group(1), em.group(2)))
    if not saw_default:
        die(f"{ty}::parse: no default arm answering None")
    return rows


def roles_of(sig, fn):
    """Role of each parameter of a dispatcher / handler by its TYPE (names are free to change)."""
    by_type = [("AppState", "state"), ("Principal", "principal"), ("Encoding", "enc"), ("RootMethod", "method"),
               ("DbMethod", "method"), ("RpcParams", "params"), ("str", "db_name"), ("String", "db_name")]
    roles = {}
    for pat, ty in params_of(sig):
        name = re.sub(r"^(mut\s+|&\s*)", "", pat).strip()
        for t, role in by_type:
            if re.search(r"(?<!\w)" + t + r"(?!\w)", ty):
                if role in roles:
                    die(f"{fn}: two parameters of role {role}")
                roles[role] = name
                break
    return roles


def reduce_handler(inner, roles, fn, pat):
    """`root::create(state, params.decode()?).await?` -> `root::create`; `db.metadata().collections` ->
    `db.metadata.collections`; a leading local is replaced by its role (`state.`, `db.`)."""
    handler, k = [], 0
    while k < len(inner):
        if inner[k] == "(":
            k = match_close(inner, k, "(", ")") + 1
        else:
            handler.append(inner[k])
            k += 1
    handler = re.sub(r"\s+", "", "".join(handler)).replace(".await", "").replace("?", "")
    if not re.fullmatch(r"[\w:.]+", handler):
        die(f"{fn}: cannot reduce the handler expression of {pat}: {inner!r}")
    m = re.match(r"(\w+)\.", handler)
    if m:
        for role, name in roles.items():
            if name == m.group(1):
                handler = role + handler[len(name):]
    mode = re.search(r"OpenMode::(\w+)", inner)
    if mode:
        handler += f"[{mode.group(1)}]"
    return handler


def dispatch_table(src, fn, ty):
    _, sig = fn_body(src, fn)
    body = inlined(src, fn)
    roles = roles_of(sig, fn)
    for need in ("state", "enc", "method", "params"):
        if need not in roles:
            die(f"{fn}: no parameter of role {need}")
    # the database handle: `let <db> = <state>.get_db(<arg>).await?` before the table
    lookup_role = ""
    gm = re.findall(r"let\s+(\w+)\s*=\s*" + re.escape(roles["state"]) + r"\s*\.\s*get_db\s*\(\s*&?\s*(\w+)\s*\)\s*\.\s*await\s*\?", body)
    if len(gm) > 1:
        die(f"{fn}: more than one get_db lookup")
    if gm:
        roles["db"] = gm[0][0]
        lookup_role = next((r for r, n in roles.items() if n == gm[0][1] and r != "db"), "other:" + gm[0][1])
    arms = the_match(body, fn, ty + r"::\w+")
    rows = []
    for pat, expr in arms:
        rm = re.search(re.escape(roles["enc"]) + r"\s*\.\s*reply\s*\(", expr)
        if not rm:
            die(f"{fn}: arm {pat} does not answer through `{roles['enc']}.reply(..)`: {expr[:80]!r}")
        end = match_close(expr, rm.end() - 1, "(", ")")
        inner = expr[rm.end():end].strip().lstrip("&").strip()
        # `let x = <expr>; enc.reply(&x)`: look through one temporary
        if re.fullmatch(r"\w+", inner):
            lm = re.findall(r"let\s+" + inner + r"\s*(?::[^=;]+)?=\s*([^;]+);", expr)
            if len(lm) == 1:
                inner = lm[0].strip()
        handler = reduce_handler(inner, roles, fn, pat)
        for q in pat.split("|"):
            rows.append((q.strip().split("::")[-1], handler,
                         uses(roles.get("principal"), expr), uses(roles["state"], expr),
                         uses(roles.get("db"), expr), uses(roles.get("db_name"), expr), uses(roles["params"], expr)))
    return rows, lookup_role, roles


def guard_info(body, call_re, what):
    """Where the first match of call_re sits in body: (number of `return`s textually before it, headers of
    the enclosing brace blocks, innermost last). A call inside the *condition* of an `if` is not enclosed
    by that `if`'s block."""
    m = re.search(call_re, body)
    if not m:
        die(f"{what}: call {call_re} not found")
    stack, i, seg_start, returns = [], 0, 0, 0
    while i < m.start():
        c = body[i]
        if c == '"':
            i += 1
            while i < m.start() and body[i] != '"':
                i += 2 if body[i] == "\\" else 1
        elif c == "{":
            # the wrapper of a textually inlined call is not a block of the caller
            wrapper = body.startswith("{ /*call:", i)
            stack.append("<inlined>" if wrapper else " ".join(body[seg_start:i].split()))
            seg_start = i + 1
        elif c == "}":
            if stack:
                stack.pop()
            seg_start = i + 1
        elif c == ";":
            seg_start = i + 1
        elif c == "r" and "<inlined>" not in stack:
            # an early return of THIS function (a `return` inside an inlined helper leaves the helper only);
            # `return Err(..)` answers an error - nothing is acknowledged - and does not count
            rm = re.compile(r"\breturn\b(?!\s*Err\b)").match(body, i)
            if rm and (i == 0 or not (body[i - 1].isalnum() or body[i - 1] == "_")):
                returns += 1
        i += 1
    stack = [h for h in stack if h != "<inlined>"]
    # blocks that are not control flow (plain `{`, inlined-call wrappers, struct literals) do not guard
    headers = [h for h in stack if re.search(r"\b(if|else|match|while|for|loop)\b|=>\s*$", h)]
    return returns, headers


def unconditional(body, call_re, what, allow_some_binding=False):
    returns, headers = guard_info(body, call_re, what)
    if allow_some_binding:
        headers = [h for h in headers if not re.fullmatch(r"if\s+let\s+Some\s*\(\s*\w+\s*\)\s*=\s*&?\s*\w+", h)]
    return returns == 0 and not headers


def lean_str(s):
    return '"' + s.replace("\\", "\\\\").replace('"', '\\"') + '"'


def lean_bool(b):
    return "true" if b else "false"


def resolve_local(name, body, depth=3):
    """follow `let name = other.clone();` / `let name = &other;` / `let name = other;` chains"""
    for _ in range(depth):
        lm = re.findall(r"let\s+" + re.escape(name) + r"\s*(?::[^=;]+)?=\s*&?\s*(\w+)\s*(?:\.\s*(?:clone|to_owned|to_string)\s*\(\s*\))?\s*;", body)
        if len(lm) != 1:
            break
        name = lm[0]
    return name


def branch_texts(ebody, what):
    """{effect: text} of the two branches that `execute_rpc` takes by the method's effect, whether it is
    spelled `if e == MethodEffect::X {..} else {..}`, `if e != ..` or `match e { MethodEffect::X => .. }`."""
    other = {"Read": "Mutating", "Mutating": "Read"}
    im = list(re.finditer(r"\bif\s+[\w.]+\s*(==|!=)\s*MethodEffect::(\w+)\s*\{", ebody))
    im += list(re.finditer(r"\bif\s+matches!\s*\(\s*[\w.]+\s*(,)\s*MethodEffect::(\w+)\s*\)\s*\{", ebody))
    if len(im) == 1:
        m = im[0]
        then_end = match_close(ebody, m.end() - 1)
        em = re.match(r"\s*else\s*\{", ebody[then_end + 1:])
        if not em:
            die(f"{what}: no else branch after the effect test")
        es = then_end + 1 + em.end() - 1
        then_b, else_b = ebody[m.end():then_end], ebody[es + 1:match_close(ebody, es)]
        eff = m.group(2) if m.group(1) != "!=" else other.get(m.group(2), "?")
        if eff not in other:
            die(f"{what}: unknown effect {eff}")
        return {eff: then_b, other[eff]: else_b}
    found = []
    for scrut, inner, _, _ in find_matches(ebody):
        arms = arms_of(inner, what)
        pats = [p for p, _ in arms]
        if pats and all(re.fullmatch(r"MethodEffect::\w+", p) for p in pats):
            found.append(arms)
    if len(im) == 0 and len(found) == 1:
        d = {p.split("::")[1]: e for p, e in found[0]}
        if sorted(d) != ["Mutating", "Read"]:
            die(f"{what}: the effect match does not have exactly the arms Read and Mutating")
        return d
    die(f"{what}: expected exactly one branch on the method's effect, found {len(im) + len(found)}")


def main():
    if len(sys.argv) != 3:
        die("usage: c14_server_methods.py <repo_root> <gen_dir>")
    repo, gen = sys.argv[1], sys.argv[2]
    p_mod = os.path.join(repo, "rs/anda_db_server/src/api/mod.rs")
    p_lib = os.path.join(repo, "rs/anda_db_server/src/lib.rs")
    p_err = os.path.join(repo, "rs/anda_db_server/src/error.rs")
    p_auth = os.path.join(repo, "rs/anda_db_server/src/auth.rs")
    p_statefile = os.path.join(repo, "rs/anda_db_server/src/state.rs")
    for p in (p_mod, p_lib, p_err, p_auth, p_statefile):
        if not os.path.exists(p):
            die(f"missing source file {p}")
    mod = cut_test_module(strip_comments(open(p_mod).read()))
    lib = cut_test_module(strip_comments(open(p_lib).read()))

    root_variants = enum_variants(mod, "RootMethod")
    db_variants = enum_variants(mod, "DbMethod")
    effects = enum_variants(mod, "MethodEffect")
    if sorted(effects) != ["Mutating", "Read"]:
        die(f"enum MethodEffect changed: {effects}")
    root_parse = parse_table(mod, "RootMethod")
    db_parse = parse_table(mod, "DbMethod")
    root_disp, root_lookup, root_roles = dispatch_table(mod, "dispatch_root", "RootMethod")
    db_disp, db_lookup, db_roles = dispatch_table(mod, "dispatch_db", "DbMethod")
    # the order of match arms carries no meaning: emit the tables sorted, so that a pure
    # reordering of arms (or of enum variants) does not change the generated file
    root_parse.sort(); db_parse.sort(); root_disp.sort(); db_disp.sort()
    root_variants.sort(); db_variants.sort()
    if not db_lookup:
        die("dispatch_db: no `let <db> = <state>.get_db(<name>).await?` before the table")
    root_takes_principal = "principal" in root_roles
    db_takes_principal = "principal" in db_roles
    disp_roles = {"dispatch_root": root_roles, "dispatch_db": db_roles}

    # entry points: scope / parse table / dispatcher / where every dispatcher argument comes from
    wiring = []
    def wire_entry(entry):
        body, sig = fn_body(mod, entry)
        # the path capture: the parameter destructured as `Path(<x>)`
        path_var = ""
        for pat, ty in params_of(sig):
            pm = re.fullmatch(r"Path\s*\(\s*(?:mut\s+)?(\w+)\s*\)", pat)
            if pm:
                path_var = pm.group(1)
        cm = unique(r"\bexecute_rpc\s*\(", body, f"execute_rpc call in {entry}")
        end = match_close(body, cm.end() - 1, "(", ")")
        args = [a.strip() for a in split_top(body[cm.end():end])]
        if len(args) != 7:
            die(f"{entry}: execute_rpc is called with {len(args)} arguments, expected 7")
        scope_arg = args[1]
        if re.fullmatch(r"\w+", scope_arg):      # `let scope = Scope::..;` temporary
            lm = re.findall(r"let\s+" + scope_arg + r"\s*(?::[^=;]+)?=\s*([^;]+);", body)
            if len(lm) == 1:
                scope_arg = lm[0].strip()
        sm = re.fullmatch(r"Scope::(\w+)(?:\(\s*&?\s*(\w+)\s*\))?", scope_arg)
        if not sm:
            die(f"{entry}: scope argument not understood: {args[1]!r}")
        scope, scope_src = sm.group(1), ""
        if sm.group(2):
            v = resolve_local(sm.group(2), body)
            scope_src = "path" if path_var and v == path_var else "other:" + v
        pm = re.fullmatch(r"(\w+)::parse", args[5])
        if not pm:
            die(f"{entry}: parse argument not understood: {args[5]!r}")
        clos = args[6]
        km = re.match(r"(?:move\s*)?\|([^|]*)\|", clos)
        if not km:
            die(f"{entry}: dispatch argument is not a closure")
        cparams = [re.sub(r":.*", "", x).strip() for x in km.group(1).split(",")]
        if len(cparams) != 5:
            die(f"{entry}: dispatch closure takes {len(cparams)} parameters, expected 5")
        dm = list(re.finditer(r"\b(dispatch_\w+)\s*\(", clos))
        if len(dm) != 1:
            die(f"{entry}: expected exactly one dispatch_* call in the closure")
        dname = dm[0].group(1)
        if dname not in disp_roles:
            die(f"{entry}: unknown dispatcher {dname}")
        dend = match_close(clos, dm[0].end() - 1, "(", ")")
        dargs = [re.sub(r"\.\s*clone\s*\(\s*\)", "", re.sub(r"[&\s]", "", a)) for a in split_top(clos[dm[0].end():dend])]
        _, dsig = fn_body(mod, dname)
        slots = []
        for pat, ty in params_of(dsig):
            nm = re.sub(r"^(mut\s+|&\s*)", "", pat).strip()
            slots.append(next((r for r, n in disp_roles[dname].items() if n == nm and r != "db"), "other"))
        if len(slots) != len(dargs):
            die(f"{entry}: {dname} is called with {len(dargs)} arguments, it takes {len(slots)}")
        # closure parameters are, by the type of execute_rpc's `F`, (state, enc, method, params, principal)
        cnames = ["state", "enc", "method", "params", "principal"]
        src_of = {}
        for slot, a in zip(slots, dargs):
            a = resolve_local(a, clos)
            if a in cparams:
                src_of[slot] = "closure:" + cnames[cparams.index(a)]
            elif path_var and resolve_local(a, body) == path_var:
                src_of[slot] = "path"
            else:
                src_of[slot] = "other:" + a
        for slot in ("state", "enc", "method", "params"):
            if src_of.get(slot) != "closure:" + slot:
                die(f"{entry}: {dname}'s {slot} argument is not the closure's {slot} parameter ({src_of.get(slot)})")
        forwards = src_of.get("principal") == "closure:principal"
        name_src = src_of.get("db_name", "")
        return (entry, scope, scope_src, pm.group(1), dname, forwards, name_src)


    for entry in ("rpc_root", "rpc_db"):
        try:
            wiring.append(wire_entry(entry))
        except SystemExit:
            # not the shape the property relies on (e.g. the dispatcher is no longer a closure over the
            # principal `execute_rpc` hands over): a fact that breaks `wiring_frozen`, not a refusal
            wiring.append((entry, "unrecognised", "", "", "", False, ""))

    # execute_rpc (private helpers inlined): order of the four stages, the principal handed on, and the
    # cancellation policy per effect
    _, esig = fn_body(mod, "execute_rpc")
    ebody = inlined(mod, "execute_rpc")
    eparams = [re.sub(r"^(mut\s+|&\s*)", "", p).strip() for p, _ in params_of(esig)]
    if len(eparams) != 7:
        die(f"execute_rpc takes {len(eparams)} parameters, expected 7")
    p_state, p_scope, _, p_headers, _, p_parse, p_dispatch = eparams
    marks = {
        "authorize": r"\b" + p_state + r"\s*\.\s*authorize\s*\(",
        "parse_body": r"\bRpcRequest::parse\s*\(",
        "parse_method": r"\b" + p_parse + r"\s*\(",
        "dispatch": r"\b" + p_dispatch + r"\s*\(",
    }
    pos = {}
    for k, pat in marks.items():
        ms = list(re.finditer(pat, ebody))
        if not ms:
            if k == "authorize":
                continue        # a fact, not a refusal: see `executeAuthorizesAtExecution`
            die(f"execute_rpc: marker {k} not found")
        pos[k] = ms[0].start()
    # Time of check = time of use: does the handler side authorise AGAIN, when the body has been buffered,
    # with (scope, bearer_token(headers)), propagate a refusal with `?`, and hand exactly that principal on?
    # (Anything else - no call, a default on error, a principal taken from request extensions - is `false`.)
    def e_through(arg):
        arg = arg.strip()
        if re.fullmatch(r"&?\s*\w+", arg):
            nm = arg.lstrip("&").strip()
            lm = re.findall(r"let\s+" + nm + r"\s*(?::[^=;]+)?=\s*([^;]+);", ebody)
            if len(lm) == 1:
                return lm[0].strip()
            return nm
        return arg
    am = list(re.finditer(r"let\s+(\w+)\s*=\s*" + p_state + r"\s*\.\s*authorize\s*\(", ebody))
    exec_authorizes, pvar_ = False, None
    if len(am) == 1:
        aend = match_close(ebody, am[0].end() - 1, "(", ")")
        aargs = [e_through(a) for a in split_top(ebody[am[0].end():aend])]
        exec_authorizes = (len(aargs) == 2 and aargs[0] == p_scope and re.search(r"\bbearer_token\b", aargs[1]) is not None
                           and uses(p_headers, aargs[1]) and re.match(r"\s*\?\s*;", ebody[aend + 1:]) is not None)
        pvar_ = am[0].group(1)
    # the entry points take the buffered body (`Bytes` extractor) and call execute_rpc with it: the handler
    # side runs after the body arrived
    handler_after_body = True
    for entry in ("rpc_root", "rpc_db"):
        _, hsig = fn_body(mod, entry)
        if not any(re.search(r"(?<!\w)Bytes(?!\w)", t_) for _, t_ in params_of(hsig)):
            handler_after_body = False
    # the principal handed to every `dispatch(...)` call must be the one `authorize` returned
    exec_forwards = exec_authorizes
    for dc in re.finditer(marks["dispatch"], ebody):
        dend_ = match_close(ebody, dc.end() - 1, "(", ")")
        dargs_ = [a.strip() for a in split_top(ebody[dc.end():dend_])]
        if len(dargs_) != 5 or pvar_ is None or resolve_local(dargs_[4], ebody) != pvar_:
            exec_forwards = False
    exec_order = [k for k, _ in sorted(pos.items(), key=lambda kv: kv[1])]
    branches = branch_texts(ebody, "execute_rpc")

    def policy(b):
        out = []
        for k, pat in (("spawn_mutation", r"\bspawn_mutation\s*\("), ("admit_read", r"\badmit_read\s*\("),
                       ("cancel_select", r"\.\s*cancelled\s*\(\s*\)"), ("dispatch", marks["dispatch"])):
            if re.search(pat, b):
                out.append(k)
        return out
    pol = {k: policy(v) for k, v in branches.items()}

    # require_auth (helpers inlined): what is let through without a check, what is checked
    _, rsig = fn_body(mod, "require_auth")
    rbody = inlined(mod, "require_auth")
    ra = []
    if re.search(r"\.\s*method\s*\(\s*\)\s*(!=|==)\s*Method::POST", rbody):
        ra.append("skip_non_post")
    ams = list(re.finditer(r"\.\s*authorize\s*\(", rbody))
    if len(ams) != 1:
        die("require_auth: exactly one authorize call expected")
    rend = match_close(rbody, ams[0].end() - 1, "(", ")")
    rargs = [a.strip() for a in split_top(rbody[ams[0].end():rend])]

    def through(arg):
        if re.fullmatch(r"\w+", arg):
            lm = re.findall(r"let\s+" + arg + r"\s*(?::[^=;]+)?=\s*([^;]+);", rbody)
            if len(lm) == 1:
                return lm[0]
        return arg
    if len(rargs) == 2 and "scope_from_params" in through(rargs[0]) and "bearer_token" in through(rargs[1]):
        ra.append("authorize_scope_from_params")
    if re.search(r"\.\s*respond\s*\(", rbody):
        ra.append("reject_with_error")
    if "authorize_scope_from_params" not in ra or "reject_with_error" not in ra:
        die("require_auth: the authorize-or-reject step was not found")
    sbody, _ = fn_body(mod, "scope_from_params")
    sm = re.findall(r'==\s*"(\w+)"', sbody)
    if len(sm) != 1 or "Scope::Database" not in sbody or "Scope::Root" not in sbody:
        die("scope_from_params: shape not recognised")
    scope_capture = sm[0]
    bbody, _ = fn_body(mod, "bearer_token")
    bm = re.findall(r'strip_prefix\s*\(\s*"([^"]*)"\s*\)', bbody)
    if len(bm) != 1 or "header::AUTHORIZATION" not in bbody:
        die("bearer_token: shape not recognised")
    bearer_prefix = bm[0]

    # error.rs: the one rejection; auth.rs: how keys are compared and what `authorize` can answer
    err = cut_test_module(strip_comments(open(p_err).read()))
    auth = cut_test_module(strip_comments(open(p_auth).read()))
    ubody, _ = fn_body(err, "unauthorized")
    um = re.findall(r"StatusCode::(\w+)", ubody)
    ustr = re.findall(r'"([^"\\]*)"', ubody)
    status_of = {"UNAUTHORIZED": 401, "FORBIDDEN": 403, "NOT_FOUND": 404, "BAD_REQUEST": 400, "CONFLICT": 409, "OK": 200}
    if len(um) != 1 or um[0] not in status_of or len(ustr) != 2:
        die("error.rs: `unauthorized()` is not one StatusCode and two string literals (code, message)")
    unauth_status, unauth_code, unauth_msg = status_of[um[0]], ustr[0], ustr[1]
    vbody, _ = fn_body(impl_block(auth, "ApiKeyHash"), "verify")
    verify_ct = bool(re.search(r"\bconstant_time_eq\s*\(", vbody)) and bool(re.search(r"\bfrom_key\s*\(", vbody))
    # key equality must depend on the WHOLE key: what `from_key` feeds the hasher, what `verify` compares,
    # what the call sites pass
    kbody, ksig = fn_body(impl_block(auth, "ApiKeyHash"), "from_key")
    kparams = [(re.sub(r"^(mut\s+|&\s*)", "", p_).strip(), t_) for p_, t_ in params_of(ksig)]
    if len(kparams) != 1 or "str" not in kparams[0][1]:
        die("auth.rs: ApiKeyHash::from_key does not take exactly one &str")
    kvar = kparams[0][0]
    lossy = r"\[[^\]]*\.\.|\.\s*(trim\w*|to_(ascii_)?(lower|upper)case|take|truncate|split\w*|get|nfc|nfd|nfkc|nfkd|chars|replace|strip_\w+|first|last|chunks)\s*\("
    ups = re.findall(r"\.\s*update\s*\(([^;]*)\)\s*;", kbody)
    whole_key = (len(ups) == 1 and re.fullmatch(r"&?\s*" + re.escape(kvar) + r"\s*\.\s*as_bytes\s*\(\s*\)", ups[0].strip()) is not None
                 and not re.search(lossy, kbody) and re.search(r"finalize\s*\(\s*\)\s*\.\s*into\s*\(\s*\)", kbody) is not None
                 and len(re.findall(r"\b" + re.escape(kvar) + r"\b", kbody)) == 1)
    whole_digest = (re.search(r"constant_time_eq\s*\(\s*&\s*Self::from_key\s*\(\s*\w+\s*\)\s*\.\s*0\s*,\s*&\s*self\s*\.\s*0\s*\)", " ".join(vbody.split())) is not None
                    and not re.search(lossy, vbody))
    cbody, _ = fn_body(mod, "constant_time_eq")
    cte_len = bool(re.search(r"\.\s*len\s*\(\s*\)\s*(!=|==)\s*\w+\s*\.\s*len\s*\(\s*\)", cbody)) and not re.search(r"\[[^\]]*\.\.", cbody)
    # every hash of a key in auth.rs / state.rs is of a plain variable (no slicing / folding at the call site)
    sites = re.findall(r"\bfrom_key\s*\(([^()]*(?:\([^()]*\)[^()]*)*)\)", auth) + \
        re.findall(r"\bfrom_key\s*\(([^()]*(?:\([^()]*\)[^()]*)*)\)", cut_test_module(strip_comments(open(p_statefile).read())))
    sites = [a.strip() for a in sites if not re.fullmatch(r"\w+\s*:\s*&str", a.strip())]
    call_sites_whole = bool(sites) and all(re.fullmatch(r"&?\s*\w+", a) or re.fullmatch(r"\w+\s*\.\s*as_(deref|str)\s*\(\s*\)", a) for a in sites)
    abody = inlined(auth, "authorize")
    dummy_burned = bool(re.search(r"\bTIMING_DUMMY\s*\.\s*verify\s*\(", abody)) and "black_box" in abody
    answers = set(re.findall(r"\bApiError::(\w+)\s*\(", abody))
    if not answers:
        die("auth.rs: authorize constructs no ApiError at all")
    only_unauthorized = answers == {"unauthorized"}
    principals_answered = sorted(set(re.findall(r"\bPrincipal::(\w+)", abody)))

    # state.rs: is every step on the way to the PUT taken unconditionally? (a skip conditioned on the
    # in-memory / engine value of the extension would acknowledge changes that are not durable)
    st = cut_test_module(strip_comments(open(p_statefile).read()))
    save_re = r"\bsave_extension_from\s*\("
    persist_keys_uncond = unconditional(fn_body(st, "persist_api_keys")[0], save_re, "persist_api_keys", True)
    persist_reg_uncond = unconditional(fn_body(st, "persist_registry")[0], save_re, "persist_registry", True)
    pk_re = r"(/\*call:persist_api_keys\*/|\bpersist_api_keys\s*\()"
    store_uncond = unconditional(inlined(st, "store_api_key"), pk_re, "store_api_key")
    st_re = r"(/\*call:store_api_key\*/|\bstore_api_key\s*\()"
    set_uncond = unconditional(inlined(st, "set_db_api_key"), st_re, "set_db_api_key")
    remove_cond = not unconditional(inlined(st, "remove_db_api_key"), st_re, "remove_db_api_key")

    # build_router: ordered chain of builder calls
    rb, _ = fn_body(lib, "build_router")
    chain = []
    i = 0
    for m in re.finditer(r"\.\s*(route_layer|route|layer|with_state|nest|merge|fallback|route_service)\s*\(", rb):
        if m.start() < i:
            continue
        end = match_close(rb, m.end() - 1, "(", ")")
        arg = " ".join(rb[m.end():end].split())
        kind = m.group(1)
        if kind == "route":
            parts = split_top(arg)
            pm = re.fullmatch(r'\s*"([^"]*)"\s*', parts[0])
            if not pm:
                die(f"build_router: route path is not a string literal: {parts[0]!r}")
            handlers = re.findall(r"\b(get|post|put|delete|patch|head|options|any)\s*\(\s*(?:api::)?(\w+)\s*\)", ",".join(parts[1:]))
            if not handlers:
                die(f"build_router: no method handlers understood in route {pm.group(1)}")
            for verb, h in handlers:
                chain.append(("route", f"{verb.upper()} {pm.group(1)} {h}"))
        elif kind in ("route_layer", "layer"):
            names = re.findall(r"\b(require_auth|normalize_rejections|total_timeout|DefaultBodyLimit)\b", arg)
            chain.append((kind, names[0] if names else re.sub(r"\W+", "_", arg)[:40]))
        else:
            chain.append((kind, re.sub(r"\W+", "_", arg)[:40] if kind != "with_state" else "state"))
        i = end
    if not any(k == "route_layer" and v == "require_auth" for k, v in chain):
        die("build_router: `.route_layer(... require_auth ...)` not found")

    L = []
    w = L.append
    w("/-")
    w("GENERATED by bin/translate/c14_server_methods.py from")
    w("  rs/anda_db_server/src/api/mod.rs and rs/anda_db_server/src/lib.rs")
    w("on every run of bin/check C14. Do not edit by hand.")
    w("-/")
    w("namespace AndaVerif.Gen.ServerMethods")
    w("")
    w("inductive Effect where")
    w("  | read | mutating")
    w("deriving DecidableEq, Repr, Inhabited")
    w("")
    w("/-- One arm of `RootMethod::parse` / `DbMethod::parse`. -/")
    w("structure ParseRow where")
    w("  name : String")
    w("  variant : String")
    w("  effect : Effect")
    w("deriving DecidableEq, Repr")
    w("")
    w("/-- One arm of `dispatch_root` / `dispatch_db`: which handler expression answers the variant and")
    w("which of the dispatcher's inputs that expression mentions. -/")
    w("structure DispatchRow where")
    w("  variant : String")
    w("  handler : String")
    w("  usesPrincipal : Bool")
    w("  usesState : Bool")
    w("  usesDb : Bool")
    w("  usesDbName : Bool")
    w("  usesParams : Bool")
    w("deriving DecidableEq, Repr")
    w("")
    w("/-- How an HTTP entry point calls `execute_rpc`. -/")
    w("structure Wiring where")
    w("  entry : String")
    w("  scope : String")
    w("  scopeName : String")
    w("  parseTable : String")
    w("  dispatcher : String")
    w("  forwardsPrincipal : Bool")
    w("  dispatchName : String")
    w("deriving DecidableEq, Repr")
    w("")

    def lst(name, ty, items):
        w(f"def {name} : List {ty} := [")
        for k, it in enumerate(items):
            w("  " + it + ("," if k + 1 < len(items) else ""))
        w("]")
        w("")

    eff = {"Read": ".read", "Mutating": ".mutating"}
    lst("rootVariants", "String", [lean_str(v) for v in root_variants])
    lst("dbVariants", "String", [lean_str(v) for v in db_variants])
    lst("rootParse", "ParseRow", [f"⟨{lean_str(n)}, {lean_str(v)}, {eff[e]}⟩" for n, v, e in root_parse])
    lst("dbParse", "ParseRow", [f"⟨{lean_str(n)}, {lean_str(v)}, {eff[e]}⟩" for n, v, e in db_parse])
    drow = lambda r: f"⟨{lean_str(r[0])}, {lean_str(r[1])}, {lean_bool(r[2])}, {lean_bool(r[3])}, {lean_bool(r[4])}, {lean_bool(r[5])}, {lean_bool(r[6])}⟩"
    lst("rootDispatch", "DispatchRow", [drow(r) for r in root_disp])
    lst("dbDispatch", "DispatchRow", [drow(r) for r in db_disp])
    lst("wiring", "Wiring", [f"⟨{lean_str(e)}, {lean_str(s)}, {lean_str(sv)}, {lean_str(p)}, {lean_str(d)}, {lean_bool(f)}, {lean_str(na)}⟩"
                              for e, s, sv, p, d, f, na in wiring])
    w(f"/-- `dispatch_db` resolves its database with `state.get_db(<this variable>)` before the match. -/")
    w(f"def dbLookupArg : String := {lean_str(db_lookup)}")
    w(f"def dispatchRootTakesPrincipal : Bool := {lean_bool(root_takes_principal)}")
    w(f"def dispatchDbTakesPrincipal : Bool := {lean_bool(db_takes_principal)}")
    w("")
    w("/-- Time of check = time of use: `execute_rpc` (helpers inlined) authorises again —")
    w("`let p = state.authorize(scope, bearer_token(headers))?;` — and the entry points that call it take the")
    w("buffered body (`Bytes`): the decision a request is executed under is taken after its body arrived -/")
    w(f"def executeAuthorizesAtExecution : Bool := {lean_bool(exec_authorizes)}")
    w(f"def handlerRunsAfterBody : Bool := {lean_bool(handler_after_body)}")
    w("/-- every `dispatch(...)` call in `execute_rpc` passes the principal returned by `state.authorize` -/")
    w(f"def executeForwardsAuthorizedPrincipal : Bool := {lean_bool(exec_forwards)}")
    w("")
    w("/-- First-occurrence order of the four stages inside `execute_rpc`. -/")
    lst("executeOrder", "String", [lean_str(x) for x in exec_order])
    w("/-- What the branch of `execute_rpc` taken for each effect does. -/")
    lst("mutatingPolicy", "String", [lean_str(x) for x in pol["Mutating"]])
    lst("readPolicy", "String", [lean_str(x) for x in pol["Read"]])
    w("/-- Skeleton of the `require_auth` route layer. -/")
    lst("requireAuth", "String", [lean_str(x) for x in ra])
    w(f"def scopeCapture : String := {lean_str(scope_capture)}")
    w(f"def bearerPrefix : String := {lean_str(bearer_prefix)}")
    w("")
    w("/-- `ApiError::unauthorized()` (error.rs): status, code, message of the one rejection -/")
    w(f"def unauthorizedStatus : Nat := {unauth_status}")
    w(f"def unauthorizedCode : String := {lean_str(unauth_code)}")
    w(f"def unauthorizedMessage : String := {lean_str(unauth_msg)}")
    w("/-- key equality depends on the WHOLE key: `from_key` feeds `<key>.as_bytes()` — unsliced, untrimmed,")
    w("unfolded — to the hasher exactly once and keeps the whole digest; `verify` compares the two whole digests;")
    w("`constant_time_eq` refuses different lengths; every `from_key(..)` call site passes a plain variable -/")
    w(f"def fromKeyHashesWholeKey : Bool := {lean_bool(whole_key)}")
    w(f"def verifyComparesWholeDigest : Bool := {lean_bool(whole_digest)}")
    w(f"def constantTimeEqChecksLength : Bool := {lean_bool(cte_len)}")
    w(f"def fromKeyCallSitesPassWholeKey : Bool := {lean_bool(call_sites_whole)}")
    w("/-- `ApiKeyHash::verify` hashes the presented key and compares digests with `constant_time_eq` -/")
    w(f"def verifyIsConstantTime : Bool := {lean_bool(verify_ct)}")
    w("/-- `authorize` (helpers inlined) burns `TIMING_DUMMY.verify(..)` behind `black_box` -/")
    w(f"def timingDummyBurned : Bool := {lean_bool(dummy_burned)}")
    w("/-- every `ApiError` that `authorize` (helpers inlined) constructs is `unauthorized()` -/")
    w(f"def authorizeOnlyErrorIsUnauthorized : Bool := {lean_bool(only_unauthorized)}")
    lst("authorizePrincipals", "String", [lean_str(x) for x in principals_answered])
    w("/-- state.rs: the call chain set_db_api_key → store_api_key → persist_api_keys → save_extension_from (and")
    w("persist_registry → save_extension_from) has no early `return` before the call and no enclosing")
    w("conditional block other than `if let Some(db) = <primary>`; remove_db_api_key stores conditionally")
    w("(it answers `false` without persisting when the in-memory map has no binding). -/")
    w(f"def persistKeysUnconditional : Bool := {lean_bool(persist_keys_uncond)}")
    w(f"def persistRegistryUnconditional : Bool := {lean_bool(persist_reg_uncond)}")
    w(f"def storeAlwaysPersists : Bool := {lean_bool(store_uncond)}")
    w(f"def setAlwaysStores : Bool := {lean_bool(set_uncond)}")
    w(f"def removeStoresConditionally : Bool := {lean_bool(remove_cond)}")
    w("/-- `build_router`: builder calls in order (a `route_layer` only covers routes added before it). -/")
    lst("routerChain", "(String × String)", [f"({lean_str(k)}, {lean_str(v)})" for k, v in chain])

    w("def parseNames (t : List ParseRow) : List String := t.map (·.name)")
    w("def parseVariants (t : List ParseRow) : List String := t.map (·.variant)")
    w("def dispatchVariants (t : List DispatchRow) : List String := t.map (·.variant)")
    w("")
    w("/-- every element of `xs` occurs in `ys` and vice versa, and neither has duplicates -/")
    w("def sameSet (xs ys : List String) : Bool :=")
    w("  xs.all (ys.contains ·) && ys.all (xs.contains ·) && xs.length == xs.eraseDups.length && ys.length == ys.eraseDups.length")
    w("")
    w("/-! Kernel-checked facts about the tables as they are in the source right now. -/")
    w("theorem gen_root_names_unique : (parseNames rootParse).Nodup := by decide")
    w("theorem gen_db_names_unique : (parseNames dbParse).Nodup := by decide")
    w("theorem gen_root_parse_covers_enum : sameSet (parseVariants rootParse) rootVariants = true := by decide")
    w("theorem gen_db_parse_covers_enum : sameSet (parseVariants dbParse) dbVariants = true := by decide")
    w("theorem gen_root_dispatch_covers_enum : sameSet (dispatchVariants rootDispatch) rootVariants = true := by decide")
    w("theorem gen_db_dispatch_covers_enum : sameSet (dispatchVariants dbDispatch) dbVariants = true := by decide")
    w("")
    w("end AndaVerif.Gen.ServerMethods")

    os.makedirs(gen, exist_ok=True)
    out = os.path.join(gen, "ServerMethods.lean")
    text = "\n".join(L) + "\n"
    old = open(out).read() if os.path.exists(out) else None
    if old != text:
        with open(out, "w") as f:
            f.write(text)
    print("GEN ServerMethods.lean")


if __name__ == "__main__":
    main()
