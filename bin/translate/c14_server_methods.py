#!/usr/bin/env python3
"""c14_server_methods.py <repo_root> <gen_dir>

Regenerates lean/AndaVerif/Gen/ServerMethods.lean from
  rs/anda_db_server/src/api/mod.rs   (method tables, dispatch matches, entry-point wiring,
                                      order inside execute_rpc, cancellation policy per effect,
                                      require_auth skeleton)
  rs/anda_db_server/src/lib.rs       (build_router: routes and the position of the auth route layer)

Strict about meaning, tolerant about layout: works on a comment-stripped copy, keys on names
and nesting. A marker that is missing / duplicated / ambiguous is an error (exit 1, one line on
stderr), never a default.
"""
import os, re, sys


def die(msg):
    print(f"c14_server_methods: {msg}", file=sys.stderr)
    sys.exit(1)


def strip_comments(src):
    """Removes // and /* */ comments; keeps string literals intact (handles escapes, raw strings
    without hashes are treated like normal strings which is enough for this file)."""
    out, i, n = [], 0, len(src)
    while i < n:
        c = src[i]
        if c == '"':
            j = i + 1
            while j < n and src[j] != '"':
                j += 2 if src[j] == "\\" else 1
            out.append(src[i:j + 1])
            i = j + 1
        elif c == "'" and (cm := re.compile(r"'(\\.[^']{0,8}|[^\\'])'").match(src, i)):
            # a char literal (lifetimes such as `'_` / `'static` never end in a quote)
            out.append(cm.group(0))
            i = cm.end()
        elif src.startswith("//", i):
            while i < n and src[i] != "\n":
                i += 1
        elif src.startswith("/*", i):
            depth, i = 1, i + 2
            while i < n and depth:
                if src.startswith("/*", i):
                    depth, i = depth + 1, i + 2
                elif src.startswith("*/", i):
                    depth, i = depth - 1, i + 2
                else:
                    i += 1
        else:
            out.append(c)
            i += 1
    return "".join(out)


def match_close(src, i, open_c="{", close_c="}"):
    """src[i] == open_c; returns index of the matching close (string-literal aware)."""
    assert src[i] == open_c, (src[i - 20:i + 20], open_c)
    depth, n = 0, len(src)
    while i < n:
        c = src[i]
        if c == '"':
            i += 1
            while i < n and src[i] != '"':
                i += 2 if src[i] == "\\" else 1
        elif c == open_c:
            depth += 1
        elif c == close_c:
            depth -= 1
            if depth == 0:
                return i
        i += 1
    die(f"unbalanced {open_c}{close_c}")


def cut_test_module(src):
    m = re.search(r"#\[cfg\(test\)\]\s*mod\s+\w+\s*\{", src)
    if not m:
        return src
    end = match_close(src, m.end() - 1)
    return src[:m.start()] + src[end + 1:]


def unique(pattern, src, what, flags=0):
    ms = list(re.finditer(pattern, src, flags))
    if len(ms) != 1:
        die(f"expected exactly one {what}, found {len(ms)}")
    return ms[0]


def fn_body(src, name):
    """Body text (inside the outer braces) of `fn name`, plus its signature text."""
    m = unique(r"\bfn\s+" + re.escape(name) + r"\s*(<|\()", src, f"fn {name}")
    # the body starts at the first `{` at paren/angle depth 0 after the parameter list
    i = src.index("(", m.start())
    j = match_close(src, i, "(", ")")
    k = src.index("{", j)
    # a `where` clause may contain no braces here; a return type may contain none either
    end = match_close(src, k)
    return src[k + 1:end], src[m.start():k]


def impl_block(src, ty):
    m = unique(r"\bimpl\s+" + re.escape(ty) + r"\s*\{", src, f"impl {ty}")
    end = match_close(src, m.end() - 1)
    return src[m.end():end]


def enum_variants(src, name):
    m = unique(r"\benum\s+" + re.escape(name) + r"\s*\{", src, f"enum {name}")
    end = match_close(src, m.end() - 1)
    body = src[m.end():end]
    vs = [v.strip() for v in body.split(",") if v.strip()]
    for v in vs:
        if not re.fullmatch(r"[A-Z]\w*", v):
            die(f"enum {name}: unexpected variant syntax {v!r}")
    return vs


def split_top(s, sep=","):
    """Split on `sep` at bracket depth 0 (string aware)."""
    parts, depth, cur, i, n = [], 0, [], 0, len(s)
    while i < n:
        c = s[i]
        if c == '"':
            j = i + 1
            while j < n and s[j] != '"':
                j += 2 if s[j] == "\\" else 1
            cur.append(s[i:j + 1])
            i = j + 1
            continue
        if c == "|" and depth == 0 and "".join(cur).strip() in ("", "move"):
            # closure parameter list `|a, b, c|`
            j = s.index("|", i + 1)
            cur.append(s[i:j + 1])
            i = j + 1
            continue
        if c in "([{":
            depth += 1
        elif c in ")]}":
            depth -= 1
        if c == sep and depth == 0:
            parts.append("".join(cur))
            cur = []
        else:
            cur.append(c)
        i += 1
    if "".join(cur).strip():
        parts.append("".join(cur))
    return parts


def match_arms(body, scrutinee_re, what):
    """Arms `pat => expr` of the unique `match <scrutinee> {` in body."""
    m = unique(r"\bmatch\s+" + scrutinee_re + r"\s*\{", body, f"match in {what}")
    end = match_close(body, m.end() - 1)
    inner = body[m.end():end]
    arms = []
    # arms are separated by top-level commas; a block arm `=> { ... }` may omit the comma
    i, n = 0, len(inner)
    while i < n:
        while i < n and inner[i] in " \t\r\n,":
            i += 1
        if i >= n:
            break
        j = inner.find("=>", i)
        if j < 0:
            die(f"{what}: dangling text in match: {inner[i:i + 40]!r}")
        pat = inner[i:j].strip()
        k = j + 2
        while k < n and inner[k] in " \t\r\n":
            k += 1
        if k < n and inner[k] == "{":
            e = match_close(inner, k)
            expr = inner[k + 1:e]
            i = e + 1
        else:
            depth, e = 0, k
            while e < n:
                c = inner[e]
                if c == '"':
                    e += 1
                    while e < n and inner[e] != '"':
                        e += 2 if inner[e] == "\\" else 1
                elif c in "([{":
                    depth += 1
                elif c in ")]}":
                    depth -= 1
                elif c == "," and depth == 0:
                    break
                e += 1
            expr = inner[k:e]
            i = e + 1
        arms.append((pat, " ".join(expr.split())))
    return arms


def parse_table(src, ty):
    body, _ = fn_body(impl_block(src, ty), "parse")
    arms = match_arms(body, r"method", f"{ty}::parse")
    rows, saw_default = [], False
    for pat, expr in arms:
        if pat == "_":
            if not re.fullmatch(r"return\s+None", expr):
                die(f"{ty}::parse: default arm is not `return None`: {expr!r}")
            saw_default = True
            continue
        pm = re.fullmatch(r'"([^"\\]*)"', pat)
        if not pm:
            die(f"{ty}::parse: arm pattern is not a plain string literal: {pat!r}")
        em = re.fullmatch(r"\(\s*Self::(\w+)\s*,\s*(?:MethodEffect::)?(Read|Mutating)\s*\)", expr)
        if not em:
            die(f"{ty}::parse: arm {pat} is not `(Self::Variant, Read|Mutating)`: {expr!r}")
        rows.append((pm.group(1), em.group(1), em.group(2)))
    if not saw_default:
        die(f"{ty}::parse: no `_ => return None` arm")
    return rows


IDENT_USE = lambda name, text: re.search(r"(?<![\w.])" + name + r"\b", text) is not None


def dispatch_table(src, fn, ty):
    body, sig = fn_body(src, fn)
    arms = match_arms(body, r"method", fn)
    rows = []
    for pat, expr in arms:
        pm = re.fullmatch(ty + r"::(\w+)", pat)
        if not pm:
            die(f"{fn}: arm pattern is not `{ty}::Variant`: {pat!r}")
        em = re.fullmatch(r"enc\s*\.\s*reply\s*\(\s*&(.*)\)", expr)
        if not em:
            die(f"{fn}: arm {pat} is not `enc.reply(&...)`: {expr!r}")
        inner = em.group(1).strip()
        # handler = the expression with argument lists, `.await` and `?` removed:
        #   root::create(state, params.decode()?).await?  ->  root::create
        #   db.metadata().collections                      ->  db.metadata.collections
        handler, k = [], 0
        while k < len(inner):
            if inner[k] == "(":
                k = match_close(inner, k, "(", ")") + 1
            else:
                handler.append(inner[k])
                k += 1
        handler = re.sub(r"\s+", "", "".join(handler)).replace(".await", "").replace("?", "")
        if not re.fullmatch(r"[\w:.]+", handler):
            die(f"{fn}: cannot reduce the handler expression of {pat}: {inner!r}")
        mode = re.search(r"OpenMode::(\w+)", inner)
        if mode:
            handler += f"[{mode.group(1)}]"
        rows.append((pm.group(1), handler,
                     IDENT_USE("principal", inner), IDENT_USE("state", inner),
                     IDENT_USE("db", inner), IDENT_USE("db_name", inner), IDENT_USE("params", inner)))
    pre = body[:body.index("match")]
    return rows, pre, sig


def lean_str(s):
    return '"' + s.replace("\\", "\\\\").replace('"', '\\"') + '"'


def lean_bool(b):
    return "true" if b else "false"


def main():
    if len(sys.argv) != 3:
        die("usage: c14_server_methods.py <repo_root> <gen_dir>")
    repo, gen = sys.argv[1], sys.argv[2]
    p_mod = os.path.join(repo, "rs/anda_db_server/src/api/mod.rs")
    p_lib = os.path.join(repo, "rs/anda_db_server/src/lib.rs")
    for p in (p_mod, p_lib):
        if not os.path.exists(p):
            die(f"missing source file {p}")
    mod = cut_test_module(strip_comments(open(p_mod).read()))
    lib = cut_test_module(strip_comments(open(p_lib).read()))

    root_variants = enum_variants(mod, "RootMethod")
    db_variants = enum_variants(mod, "DbMethod")
    effects = enum_variants(mod, "MethodEffect")
    if sorted(effects) != ["Mutating", "Read"]:
        die(f"enum MethodEffect changed: {effects}")
    root_parse = parse_table(mod, "RootMethod")
    db_parse = parse_table(mod, "DbMethod")
    root_disp, root_pre, root_sig = dispatch_table(mod, "dispatch_root", "RootMethod")
    db_disp, db_pre, db_sig = dispatch_table(mod, "dispatch_db", "DbMethod")
    # the order of match arms carries no meaning: emit the tables sorted, so that a pure
    # reordering of arms (or of enum variants) does not change the generated file
    root_parse.sort(); db_parse.sort(); root_disp.sort(); db_disp.sort()
    root_variants.sort(); db_variants.sort()

    # dispatch_db resolves the database from the path name before the match
    gm = re.findall(r"let\s+db\s*=\s*state\s*\.\s*get_db\s*\(\s*(\w+)\s*\)\s*\.\s*await\s*\?", db_pre)
    if len(gm) != 1:
        die("dispatch_db: expected exactly one `let db = state.get_db(<name>).await?` before the match")
    db_lookup_arg = gm[0]
    root_takes_principal = IDENT_USE("principal", root_sig) or "Principal" in root_sig
    db_takes_principal = "Principal" in db_sig

    # entry points: scope / parse table / dispatcher / principal forwarding
    wiring = []
    for entry in ("rpc_root", "rpc_db"):
        body, _ = fn_body(mod, entry)
        cm = unique(r"\bexecute_rpc\s*\(", body, f"execute_rpc call in {entry}")
        end = match_close(body, cm.end() - 1, "(", ")")
        args = [a.strip() for a in split_top(body[cm.end():end])]
        if len(args) != 7:
            die(f"{entry}: execute_rpc is called with {len(args)} arguments, expected 7")
        sm = re.fullmatch(r"Scope::(\w+)(?:\(\s*&?\s*(\w+)\s*\))?", args[1])
        if not sm:
            die(f"{entry}: scope argument not understood: {args[1]!r}")
        scope, scope_var = sm.group(1), sm.group(2) or ""
        if scope_var:
            # follow one `let scope_var = X.clone();`
            lm = re.findall(r"let\s+" + scope_var + r"\s*=\s*(\w+)\s*\.\s*clone\s*\(\s*\)", body)
            if len(lm) == 1:
                scope_var = lm[0]
        pm = re.fullmatch(r"(\w+)::parse", args[5])
        if not pm:
            die(f"{entry}: parse argument not understood: {args[5]!r}")
        clos = args[6]
        km = re.match(r"(?:move\s*)?\|([^|]*)\|", clos)
        if not km:
            die(f"{entry}: dispatch argument is not a closure")
        cparams = [x.strip() for x in km.group(1).split(",")]
        if len(cparams) != 5:
            die(f"{entry}: dispatch closure takes {len(cparams)} parameters, expected 5")
        dm = list(re.finditer(r"\b(dispatch_\w+)\s*\(", clos))
        if len(dm) != 1:
            die(f"{entry}: expected exactly one dispatch_* call in the closure")
        dend = match_close(clos, dm[0].end() - 1, "(", ")")
        dargs = [re.sub(r"[&\s]", "", a) for a in split_top(clos[dm[0].end():dend])]
        pvar = cparams[4]
        forwards = (not pvar.startswith("_")) and pvar in dargs
        name_arg = ""
        for a in dargs:
            if a in ("db_name", scope_var) and a not in (cparams[0], cparams[1], cparams[2], cparams[3], pvar):
                name_arg = a
        wiring.append((entry, scope, scope_var, pm.group(1), dm[0].group(1), forwards, name_arg))

    # execute_rpc: order of the four stages and the cancellation policy per effect
    ebody, _ = fn_body(mod, "execute_rpc")
    marks = {
        "authorize": r"\bstate\s*\.\s*authorize\s*\(",
        "parse_body": r"\bRpcRequest::parse\s*\(",
        "parse_method": r"\bparse_method\s*\(",
        "dispatch": r"\bdispatch\s*\(",
    }
    pos = {}
    for k, pat in marks.items():
        ms = list(re.finditer(pat, ebody))
        if not ms:
            die(f"execute_rpc: marker {k} not found")
        pos[k] = ms[0].start()
    pm_ = re.findall(r"let\s+(\w+)\s*=\s*state\s*\.\s*authorize\s*\(\s*scope\s*,\s*bearer_token\s*\(\s*headers\s*\)\s*\)\s*\?", ebody)
    if len(pm_) != 1:
        die("execute_rpc: exactly one `let <p> = state.authorize(scope, bearer_token(headers))?` expected")
    pvar_ = pm_[0]
    # the principal handed to every `dispatch(...)` call must be the one `authorize` returned
    dcalls = list(re.finditer(r"\bdispatch\s*\(", ebody))
    if not dcalls:
        die("execute_rpc: no dispatch(...) call")
    exec_forwards = True
    for dc in dcalls:
        dend_ = match_close(ebody, dc.end() - 1, "(", ")")
        dargs_ = [a.strip() for a in split_top(ebody[dc.end():dend_])]
        if len(dargs_) != 5 or dargs_[4] != pvar_:
            exec_forwards = False
    exec_order = [k for k, _ in sorted(pos.items(), key=lambda kv: kv[1])]
    im = unique(r"\bif\s+effect\s*==\s*MethodEffect::(\w+)\s*\{", ebody, "`if effect == MethodEffect::X` in execute_rpc")
    then_end = match_close(ebody, im.end() - 1)
    then_b = ebody[im.end():then_end]
    em = re.match(r"\s*else\s*\{", ebody[then_end + 1:])
    if not em:
        die("execute_rpc: no else branch after the effect test")
    else_start = then_end + 1 + em.end() - 1
    else_b = ebody[else_start + 1:match_close(ebody, else_start)]

    def policy(b):
        out = []
        for k, pat in (("spawn_mutation", r"\bspawn_mutation\s*\("), ("admit_read", r"\badmit_read\s*\("),
                       ("cancel_select", r"\bcancel\s*\.\s*cancelled\s*\("), ("dispatch", r"\bdispatch\s*\(")):
            if re.search(pat, b):
                out.append(k)
        return out
    tested, then_p, else_p = im.group(1), policy(then_b), policy(else_b)
    pol = {tested: then_p, ("Read" if tested == "Mutating" else "Mutating"): else_p}

    # require_auth: what is let through without a check, what is checked
    rbody, _ = fn_body(mod, "require_auth")
    ra = []
    if re.search(r"req\s*\.\s*method\s*\(\s*\)\s*!=\s*Method::POST", rbody):
        ra.append("skip_non_post")
    if re.search(r"let\s+Ok\s*\(\s*params\s*\)\s*=\s*params\s+else", rbody):
        ra.append("skip_bad_path_params")
    if re.search(r"state\s*\.\s*authorize\s*\(\s*scope_from_params\s*\(\s*&params\s*\)\s*,\s*bearer_token\s*\(\s*req\s*\.\s*headers\s*\(\s*\)\s*\)\s*\)", rbody):
        ra.append("authorize_scope_from_params")
    if re.search(r"return\s+err\s*\.\s*respond\s*\(", rbody):
        ra.append("reject_with_error")
    if "authorize_scope_from_params" not in ra or "reject_with_error" not in ra:
        die("require_auth: the authorize-or-reject step was not found")
    sbody, _ = fn_body(mod, "scope_from_params")
    sm = re.search(r'name\s*==\s*"(\w+)"', sbody)
    if not sm or "Scope::Database" not in sbody or "Scope::Root" not in sbody:
        die("scope_from_params: shape not recognised")
    scope_capture = sm.group(1)
    bbody, _ = fn_body(mod, "bearer_token")
    bm = re.search(r'strip_prefix\s*\(\s*"([^"]*)"\s*\)', bbody)
    if not bm or "header::AUTHORIZATION" not in bbody:
        die("bearer_token: shape not recognised")
    bearer_prefix = bm.group(1)

    # build_router: ordered chain of builder calls
    rb, _ = fn_body(lib, "build_router")
    chain = []
    i = 0
    for m in re.finditer(r"\.\s*(route_layer|route|layer|with_state|nest|merge|fallback|route_service)\s*\(", rb):
        if m.start() < i:
            continue
        end = match_close(rb, m.end() - 1, "(", ")")
        arg = " ".join(rb[m.end():end].split())
        kind = m.group(1)
        if kind == "route":
            parts = split_top(arg)
            pm = re.fullmatch(r'\s*"([^"]*)"\s*', parts[0])
            if not pm:
                die(f"build_router: route path is not a string literal: {parts[0]!r}")
            handlers = re.findall(r"\b(get|post|put|delete|patch|head|options|any)\s*\(\s*(?:api::)?(\w+)\s*\)", ",".join(parts[1:]))
            if not handlers:
                die(f"build_router: no method handlers understood in route {pm.group(1)}")
            for verb, h in handlers:
                chain.append(("route", f"{verb.upper()} {pm.group(1)} {h}"))
        elif kind in ("route_layer", "layer"):
            names = re.findall(r"\b(require_auth|normalize_rejections|total_timeout|DefaultBodyLimit)\b", arg)
            chain.append((kind, names[0] if names else re.sub(r"\W+", "_", arg)[:40]))
        else:
            chain.append((kind, re.sub(r"\W+", "_", arg)[:40] if kind != "with_state" else "state"))
        i = end
    if not any(k == "route_layer" and v == "require_auth" for k, v in chain):
        die("build_router: `.route_layer(... require_auth ...)` not found")

    L = []
    w = L.append
    w("/-")
    w("GENERATED by bin/translate/c14_server_methods.py from")
    w("  rs/anda_db_server/src/api/mod.rs and rs/anda_db_server/src/lib.rs")
    w("on every run of bin/check C14. Do not edit by hand.")
    w("-/")
    w("namespace AndaVerif.Gen.ServerMethods")
    w("")
    w("inductive Effect where")
    w("  | read | mutating")
    w("deriving DecidableEq, Repr, Inhabited")
    w("")
    w("/-- One arm of `RootMethod::parse` / `DbMethod::parse`. -/")
    w("structure ParseRow where")
    w("  name : String")
    w("  variant : String")
    w("  effect : Effect")
    w("deriving DecidableEq, Repr")
    w("")
    w("/-- One arm of `dispatch_root` / `dispatch_db`: which handler expression answers the variant and")
    w("which of the dispatcher's inputs that expression mentions. -/")
    w("structure DispatchRow where")
    w("  variant : String")
    w("  handler : String")
    w("  usesPrincipal : Bool")
    w("  usesState : Bool")
    w("  usesDb : Bool")
    w("  usesDbName : Bool")
    w("  usesParams : Bool")
    w("deriving DecidableEq, Repr")
    w("")
    w("/-- How an HTTP entry point calls `execute_rpc`. -/")
    w("structure Wiring where")
    w("  entry : String")
    w("  scope : String")
    w("  scopeName : String")
    w("  parseTable : String")
    w("  dispatcher : String")
    w("  forwardsPrincipal : Bool")
    w("  dispatchName : String")
    w("deriving DecidableEq, Repr")
    w("")

    def lst(name, ty, items):
        w(f"def {name} : List {ty} := [")
        for k, it in enumerate(items):
            w("  " + it + ("," if k + 1 < len(items) else ""))
        w("]")
        w("")

    eff = {"Read": ".read", "Mutating": ".mutating"}
    lst("rootVariants", "String", [lean_str(v) for v in root_variants])
    lst("dbVariants", "String", [lean_str(v) for v in db_variants])
    lst("rootParse", "ParseRow", [f"⟨{lean_str(n)}, {lean_str(v)}, {eff[e]}⟩" for n, v, e in root_parse])
    lst("dbParse", "ParseRow", [f"⟨{lean_str(n)}, {lean_str(v)}, {eff[e]}⟩" for n, v, e in db_parse])
    drow = lambda r: f"⟨{lean_str(r[0])}, {lean_str(r[1])}, {lean_bool(r[2])}, {lean_bool(r[3])}, {lean_bool(r[4])}, {lean_bool(r[5])}, {lean_bool(r[6])}⟩"
    lst("rootDispatch", "DispatchRow", [drow(r) for r in root_disp])
    lst("dbDispatch", "DispatchRow", [drow(r) for r in db_disp])
    lst("wiring", "Wiring", [f"⟨{lean_str(e)}, {lean_str(s)}, {lean_str(sv)}, {lean_str(p)}, {lean_str(d)}, {lean_bool(f)}, {lean_str(na)}⟩"
                              for e, s, sv, p, d, f, na in wiring])
    w(f"/-- `dispatch_db` resolves its database with `state.get_db(<this variable>)` before the match. -/")
    w(f"def dbLookupArg : String := {lean_str(db_lookup_arg)}")
    w(f"def dispatchRootTakesPrincipal : Bool := {lean_bool(root_takes_principal)}")
    w(f"def dispatchDbTakesPrincipal : Bool := {lean_bool(db_takes_principal)}")
    w("")
    w("/-- every `dispatch(...)` call in `execute_rpc` passes the principal returned by `state.authorize` -/")
    w(f"def executeForwardsAuthorizedPrincipal : Bool := {lean_bool(exec_forwards)}")
    w("")
    w("/-- First-occurrence order of the four stages inside `execute_rpc`. -/")
    lst("executeOrder", "String", [lean_str(x) for x in exec_order])
    w("/-- What the branch of `execute_rpc` taken for each effect does. -/")
    lst("mutatingPolicy", "String", [lean_str(x) for x in pol["Mutating"]])
    lst("readPolicy", "String", [lean_str(x) for x in pol["Read"]])
    w("/-- Skeleton of the `require_auth` route layer. -/")
    lst("requireAuth", "String", [lean_str(x) for x in ra])
    w(f"def scopeCapture : String := {lean_str(scope_capture)}")
    w(f"def bearerPrefix : String := {lean_str(bearer_prefix)}")
    w("")
    w("/-- `build_router`: builder calls in order (a `route_layer` only covers routes added before it). -/")
    lst("routerChain", "(String × String)", [f"({lean_str(k)}, {lean_str(v)})" for k, v in chain])

    w("def parseNames (t : List ParseRow) : List String := t.map (·.name)")
    w("def parseVariants (t : List ParseRow) : List String := t.map (·.variant)")
    w("def dispatchVariants (t : List DispatchRow) : List String := t.map (·.variant)")
    w("")
    w("/-- every element of `xs` occurs in `ys` and vice versa, and neither has duplicates -/")
    w("def sameSet (xs ys : List String) : Bool :=")
    w("  xs.all (ys.contains ·) && ys.all (xs.contains ·) && xs.length == xs.eraseDups.length && ys.length == ys.eraseDups.length")
    w("")
    w("/-! Kernel-checked facts about the tables as they are in the source right now. -/")
    w("theorem gen_root_names_unique : (parseNames rootParse).Nodup := by decide")
    w("theorem gen_db_names_unique : (parseNames dbParse).Nodup := by decide")
    w("theorem gen_root_parse_covers_enum : sameSet (parseVariants rootParse) rootVariants = true := by decide")
    w("theorem gen_db_parse_covers_enum : sameSet (parseVariants dbParse) dbVariants = true := by decide")
    w("theorem gen_root_dispatch_covers_enum : sameSet (dispatchVariants rootDispatch) rootVariants = true := by decide")
    w("theorem gen_db_dispatch_covers_enum : sameSet (dispatchVariants dbDispatch) dbVariants = true := by decide")
    w("")
    w("end AndaVerif.Gen.ServerMethods")

    os.makedirs(gen, exist_ok=True)
    out = os.path.join(gen, "ServerMethods.lean")
    text = "\n".join(L) + "\n"
    old = open(out).read() if os.path.exists(out) else None
    if old != text:
        with open(out, "w") as f:
            f.write(text)
    print("GEN ServerMethods.lean")


if __name__ == "__main__":
    main()
