#!/usr/bin/env python3
"""C03: regenerates the constants the filter entry points use
(`Collection::MAX_SEARCH_LIMIT`, the `search_ids` candidate breadth `limit * A` capped at B, the
filter complexity limits of query.rs) and two *shape facts* of the filter evaluator that decide
paging:

  compositeOperandsUnbounded  every evaluation of an operand of a composite filter - i.e. every call
                              of `filter_by_field_with` made from inside its own call tree (itself and
                              the private helpers it reaches) - is handed the literal limit `0`;
  fieldArmStopsEarly          the callback handed to the B-tree scan (`try_range_query_ids`) contains
                              an early `return false` (a stop in *key* order).

Tolerant about layout: the arms may live in `filter_by_field_with` itself or in private helper
functions it calls (at any depth); names of locals, comments, formatting do not matter.
Strict about meaning: a missing anchor is an error, never a default."""
import re, sys
from common import *

repo, gen = sys.argv[1], sys.argv[2]
src = strip_rust_comments(read_source(repo, "rs/anda_db/src/collection.rs"))
max_limit = int_const(src, "MAX_SEARCH_LIMIT")

qsrc = strip_rust_comments(read_source(repo, "rs/anda_db/src/query.rs"))
max_depth = int_const(qsrc, "MAX_FILTER_DEPTH")
max_nodes = int_const(qsrc, "MAX_FILTER_NODES")
max_branches = int_const(qsrc, "MAX_FILTER_BRANCHES")
max_include = int_const(qsrc, "MAX_RANGE_INCLUDE_KEYS")

# ---- all fn bodies of the file, by name (last definition wins for test modules: we cut at `mod tests`)
cut = re.search(r"#\[cfg\(test\)\]\s*mod\s+tests", src)
code = src[:cut.start()] if cut else src
fn_names = sorted(set(re.findall(r"\bfn\s+([a-z_][a-z0-9_]*)\b", code)))
bodies = {}
for name in fn_names:
    try:
        bodies[name] = fn_body(code, name)
    except SystemExit:
        pass


def callees(body):
    out = set()
    for m in re.finditer(r"(?:self\s*\.|Self::)\s*([a-z_][a-z0-9_]*)\s*(?:::<[^>]*>)?\(", body):
        if m.group(1) in bodies:
            out.add(m.group(1))
    return out


def reach(root):
    seen, todo = set(), [root]
    while todo:
        f = todo.pop()
        if f in seen:
            continue
        seen.add(f)
        todo.extend(callees(bodies[f]))
    return seen


if "filter_by_field_with" not in bodies:
    die("c03_consts: fn filter_by_field_with not found")
tree = reach("filter_by_field_with")

# ---- search_ids: top_k = (limit * A).min(B), possibly in a helper search_ids reaches
sm = None
for f in sorted(reach("search_ids") if "search_ids" in bodies else []):
    sm = re.search(r"let\s+\w+\s*=\s*\(\s*\w+\s*\*\s*(\d+)\s*\)\s*\.min\(\s*(\d+)\s*\)", bodies[f])
    if sm:
        break
if not sm:
    die("c03_consts: `(limit * A).min(B)` (search candidate breadth) not found in search_ids or its helpers")
factor, cap = int(sm.group(1)), int(sm.group(2))
# ---- search_ids: the default page size `query.limit.unwrap_or(D)` (same call tree)
dm_ = None
for f in sorted(reach("search_ids")):
    dm_ = re.search(r"\blimit\s*\.unwrap_or\(\s*(\d+)\s*\)", bodies[f])
    if dm_:
        break
if not dm_:
    die("c03_consts: `limit.unwrap_or(D)` (default search page size) not found in search_ids or its helpers")
default_limit = int(dm_.group(1))


def call_args(body, callee):
    """argument lists (split at top-level commas) of every call `self.callee(...)` in body"""
    res = []
    for m in re.finditer(r"(?:self\s*\.|Self::)\s*" + callee + r"\s*\(", body):
        i, depth, cur, args = m.end(), 1, "", []
        while i < len(body) and depth:
            c = body[i]
            if c in "([{":
                depth += 1
            elif c in ")]}":
                depth -= 1
                if depth == 0:
                    break
            if c == "," and depth == 1:
                args.append(cur.strip()); cur = ""
            else:
                cur += c
            i += 1
        if cur.strip():
            args.append(cur.strip())
        res.append(args)
    return res


# ---- limits handed to operand evaluations: every call of filter_by_field_with from inside its own tree
limits = []
for f in sorted(tree):
    for args in call_args(bodies[f], "filter_by_field_with"):
        if len(args) < 4:
            die(f"c03_consts: call of filter_by_field_with in {f} has {len(args)} arguments, expected 4")
        limits.append((f, args[2]))
if not limits:
    die("c03_consts: no operand evaluation (recursive call of filter_by_field_with) found in its call tree")
unbounded = all(l == "0" for _, l in limits)

# ---- calls of filter_by_field_with from OUTSIDE its own tree (the entry `filter_by_field`): a call that
#      restricts the evaluation to a candidate set (second argument not literally `None`) must evaluate
#      unbounded (literal limit `0`): the caller keeps the candidates' relevance order and trims the tail,
#      so stopping the inner scan after `limit` ids (in id order) would drop relevant candidates.
ext_limits = []
for f in sorted(bodies):
    if f in tree:
        continue
    for args in call_args(bodies[f], "filter_by_field_with"):
        if len(args) < 4:
            die(f"c03_consts: call of filter_by_field_with in {f} has {len(args)} arguments, expected 4")
        if args[1].strip() != "None":
            ext_limits.append((f, args[2]))
if not ext_limits:
    die("c03_consts: no candidate-restricted evaluation (external call of filter_by_field_with with a candidate set) found")
cand_unbounded = all(l == "0" for _, l in ext_limits)

# ---- the B-tree scan callback
scan_fns = [f for f in sorted(tree) if re.search(r"\btry_range_query_ids\s*\(", bodies[f])]
if len(scan_fns) != 1:
    die(f"c03_consts: expected exactly one function in filter_by_field_with's call tree calling try_range_query_ids, found {scan_fns}")
b = bodies[scan_fns[0]]
m = re.search(r"\btry_range_query_ids\s*\(", b)
i, depth = m.end(), 1
while i < len(b) and depth:
    if b[i] in "([{":
        depth += 1
    elif b[i] in ")]}":
        depth -= 1
    i += 1
call_text = b[m.end():i]
# the callback may be a closure literal in the call, or a named closure/fn defined in the same function
cb_text = call_text
for name in re.findall(r"\b([a-z_][a-z0-9_]*)\b", call_text.split("|")[0] if "|" not in call_text else ""):
    dm = re.search(r"let\s+(?:mut\s+)?" + name + r"\s*=\s*(?:move\s*)?\|", b)
    if dm:
        cb_text += b[dm.start():]
field_stops_early = bool(re.search(r"\breturn\s+false\b", cb_text)) or bool(re.search(r"\|\s*\w+\s*\|[^;{]*\bfalse\b\s*\)", call_text))

text = f"""/- GENERATED by bin/translate/c03_consts.py from rs/anda_db/src/collection.rs and query.rs — do not edit. -/
namespace AndaVerif.Gen.FilterConsts

/-- `Collection::MAX_SEARCH_LIMIT` -/
def maxSearchLimit : Nat := {max_limit}
/-- `search_ids`: `top_k = (limit * searchFactor).min(searchCap)` -/
def searchFactor : Nat := {factor}
def searchCap : Nat := {cap}
/-- `search_ids`: `limit = query.limit.unwrap_or(searchDefaultLimit).min(MAX_SEARCH_LIMIT)` -/
def searchDefaultLimit : Nat := {default_limit}
/-- the filter complexity budget of rs/anda_db/src/query.rs -/
def maxFilterDepth : Nat := {max_depth}
def maxFilterNodes : Nat := {max_nodes}
def maxFilterBranches : Nat := {max_branches}
def maxRangeIncludeKeys : Nat := {max_include}
/-- every evaluation of a composite filter's operand (each call of `filter_by_field_with` made from
inside its own call tree) is handed the literal limit `0` (unbounded) -/
def compositeOperandsUnbounded : Bool := {"true" if unbounded else "false"}
/-- every evaluation restricted to a candidate set (each call of `filter_by_field_with` from outside its
own call tree whose candidate argument is not `None`) is handed the literal limit `0` -/
def candidateEvaluationUnbounded : Bool := {"true" if cand_unbounded else "false"}
/-- the callback of the B-tree `Field` scan contains an early `return false` (a stop in key order) -/
def fieldArmStopsEarly : Bool := {"true" if field_stops_early else "false"}

theorem gen_maxSearchLimit_pos : 0 < maxSearchLimit := by decide
/-- the candidate breadth is never narrower than the page: `limit ≤ top_k` for every clamped limit -/
theorem gen_searchBreadth_covers_page : 1 ≤ searchFactor ∧ maxSearchLimit ≤ searchCap := by decide
theorem gen_compositeOperandsUnbounded : compositeOperandsUnbounded = true := by decide
theorem gen_candidateEvaluationUnbounded : candidateEvaluationUnbounded = true := by decide
theorem gen_fieldArmUnbounded : fieldArmStopsEarly = false := by decide

end AndaVerif.Gen.FilterConsts
"""
write_gen(gen, "FilterConsts.lean", text)
