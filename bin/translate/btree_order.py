#!/usr/bin/env python3
"""btree_order.py <repo_root> <gen_dir>  ->  <gen_dir>/BTreeOrder.lean

Extracts, from the current source of `BTreeIndex::flush_owned_with`
(rs/anda_db_btree/src/btree.rs) and of its production caller `InnerBTree::flush_inner`
(rs/anda_db/src/index/btree.rs), the *order* and the *generation wiring* of the manifest commit
protocol:

  * the order of: dirty-bucket snapshot, bucket-object writes, metadata write (commit point),
    publication of `last_saved_version`, publication of the in-memory manifest, clearing of dirty marks;
  * the expression that defines this flush's generation, the generation a dirty / a clean bucket gets
    in the new manifest, the filter that selects the obsolete objects;
  * whether an error of a bucket write / of the metadata write leaves the function before anything
    later happens (`.await … ?`);
  * in the caller: `flush_owned_with` (error-propagating) before the best-effort deletions.

Works on a comment- and string-stripped copy; keys on call names, not on layout. Strict about
meaning: a marker that is missing or occurs twice in the function body is an error (exit 2).
"""
import os
import re
import sys


def die(msg):
    print(f"btree_order.py: {msg}", file=sys.stderr)
    sys.exit(2)


def strip(src):
    """Remove comments; blank out string / char literal contents (lengths are not preserved)."""
    out, i, n = [], 0, len(src)
    while i < n:
        c = src[i]
        if src.startswith("//", i):
            while i < n and src[i] != "\n":
                i += 1
        elif src.startswith("/*", i):
            depth, i = 1, i + 2
            while i < n and depth:
                if src.startswith("/*", i):
                    depth, i = depth + 1, i + 2
                elif src.startswith("*/", i):
                    depth, i = depth - 1, i + 2
                else:
                    i += 1
        elif c == '"':
            out.append('""')
            i += 1
            while i < n and src[i] != '"':
                i += 2 if src[i] == "\\" else 1
            i += 1
        elif c == "'" and re.match(r"'(\\.|[^\\'])'", src[i:i + 4]):
            m = re.match(r"'(\\.|[^\\'])'", src[i:i + 4])
            out.append("' '")
            i += m.end()
        else:
            out.append(c)
            i += 1
    return "".join(out)


def fn_body(src, name, path):
    ms = list(re.finditer(r"\bfn\s+" + re.escape(name) + r"\b", src))
    if len(ms) != 1:
        die(f"{path}: expected exactly one `fn {name}`, found {len(ms)}")
    i, depth = ms[0].end(), 0
    while i < len(src):
        ch = src[i]
        if ch in "([":
            depth += 1
        elif ch in ")]":
            depth -= 1
        elif ch == "{" and depth == 0:
            break
        elif ch == ";" and depth == 0:
            die(f"{path}: fn {name} has no body")
        i += 1
    start, depth = i, 0
    while i < len(src):
        if src[i] == "{":
            depth += 1
        elif src[i] == "}":
            depth -= 1
            if depth == 0:
                return src[start + 1:i]
        i += 1
    die(f"{path}: unbalanced braces in fn {name}")


def once(body, pattern, what, fn):
    ms = list(re.finditer(pattern, body))
    if len(ms) != 1:
        die(f"fn {fn}: marker `{what}` expected once, found {len(ms)} times")
    return ms[0]


def statement_after(body, pos):
    """text from pos to the `;` that ends the enclosing statement (depth-aware)"""
    depth, i = 0, pos
    while i < len(body):
        ch = body[i]
        if ch in "([{":
            depth += 1
        elif ch in ")]}":
            depth -= 1
            if depth < 0:
                break
        elif ch == ";" and depth == 0:
            break
        i += 1
    return body[pos:i]


def balanced(body, open_pos):
    """contents of the parenthesis opened at open_pos"""
    depth, i = 0, open_pos
    while i < len(body):
        if body[i] in "([{":
            depth += 1
        elif body[i] in ")]}":
            depth -= 1
            if depth == 0:
                return body[open_pos + 1:i]
        i += 1
    die("unbalanced parenthesis")


def squash(s):
    return re.sub(r"\s+", "", s)


def lean_str(s):
    return '"' + s.replace("\\", "\\\\").replace('"', '\\"') + '"'


def main():
    if len(sys.argv) != 3:
        die("usage: btree_order.py <repo_root> <gen_dir>")
    repo, gen = sys.argv[1], sys.argv[2]
    p1 = os.path.join(repo, "rs/anda_db_btree/src/btree.rs")
    p2 = os.path.join(repo, "rs/anda_db/src/index/btree.rs")
    for p in (p1, p2):
        if not os.path.exists(p):
            die(f"missing source file {p}")
    s1 = strip(open(p1).read())
    # only the non-test part of the crate
    s1 = s1.split("#[cfg(test)]\nmod tests")[0]
    body = fn_body(s1, "flush_owned_with", p1)
    F = "flush_owned_with"
    marks = {
        "snapshot": once(body, r"\bself\s*\.\s*serialize_dirty_buckets\s*\(", "self.serialize_dirty_buckets(", F),
        "bucketWrites": once(body, r"\bbucket_writer\s*\(", "bucket_writer(", F),
        "metaCommit": once(body, r"\bmetadata_writer\s*\(", "metadata_writer(", F),
        "publishSaved": once(body, r"\blast_saved_version\s*\.\s*fetch_max\s*\(", "last_saved_version.fetch_max(", F),
        "publishManifest": once(body, r"\bm\s*\.\s*buckets\s*=\s*manifest\b", "m.buckets = manifest", F),
        "clearDirty": once(body, r"\bself\s*\.\s*mark_bucket_snapshot_saved\s*\(", "self.mark_bucket_snapshot_saved(", F),
    }
    order = [k for k, _ in sorted(marks.items(), key=lambda kv: kv[1].start())]
    gen_expr = squash(once(body, r"\blet\s+generation\s*=\s*([^;]+);", "let generation = …;", F).group(1))
    dirty_val = squash(once(body, r"if\s+dirty_ids\s*\.\s*contains\s*\(\s*&\s*id\s*\)\s*\{\s*manifest\s*\.\s*insert\s*\(\s*id\s*,\s*([^)]*)\)",
                            "if dirty_ids.contains(&id) { manifest.insert(id, …)", F).group(1))
    clean_val = squash(once(body, r"else\s+if\s+let\s+Some\s*\(\s*committed_generation\s*\)\s*=\s*committed\s*\.\s*get\s*\(\s*&\s*id\s*\)\s*\{\s*manifest\s*\.\s*insert\s*\(\s*id\s*,\s*([^)]*)\)",
                            "else if let Some(committed_generation) = committed.get(&id) { manifest.insert(id, …)", F).group(1))
    obs = once(body, r"\blet\s+obsolete\b[^=]*=\s*committed\s*\.\s*iter\s*\(\s*\)\s*\.\s*filter\s*\(",
               "let obsolete = committed.iter().filter(", F)
    arg = balanced(body, obs.end() - 1)
    mc = re.match(r"\s*\|[^|]*\|(.*)$", arg, re.S)
    if not mc:
        die("fn flush_owned_with: the obsolete filter is not a closure")
    obs_filter = squash(mc.group(1))
    # the generation handed to bucket_writer: `BucketObject { bucket_id: …, generation }` inside the call
    call = statement_after(body, marks["bucketWrites"].start())
    mo = re.search(r"BucketObject\s*\{([^}]*)\}", call)
    if not mo:
        die("fn flush_owned_with: bucket_writer( is not called with a BucketObject { … } literal")
    fields = [squash(f) for f in mo.group(1).split(",") if squash(f)]
    gfield = [f for f in fields if f == "generation" or f.startswith("generation:")]
    if len(gfield) != 1:
        die("fn flush_owned_with: BucketObject literal has no single generation field")
    obj_gen = gfield[0].split(":", 1)[1] if ":" in gfield[0] else "generation"
    bucket_aborts = ".await" in squash(call) and squash(call).endswith("?")
    mcall = statement_after(body, marks["metaCommit"].start())
    meta_aborts = ".await" in squash(mcall) and squash(mcall).endswith("?")

    s2 = strip(open(p2).read())
    s2 = s2.split("#[cfg(test)]\nmod tests")[0]
    wbody = fn_body(s2, "flush_inner", p2)
    W = "flush_inner"
    wm = {
        "flushOwned": once(wbody, r"\.\s*flush_owned_with\s*\(", ".flush_owned_with(", W),
        "deleteObsolete": once(wbody, r"\bself\s*\.\s*storage\s*\.\s*delete\s*\(", "self.storage.delete(", W),
    }
    worder = [k for k, _ in sorted(wm.items(), key=lambda kv: kv[1].start())]
    wcall = statement_after(wbody, wm["flushOwned"].start())
    wrapper_aborts = squash(wcall).endswith(".await?")
    loop = once(wbody, r"\bfor\s+\w+\s+in\s+&?\s*outcome\s*\.\s*obsolete\b", "for … in &outcome.obsolete", W)
    deletes_obsolete_only = loop.start() < wm["deleteObsolete"].start()

    b = lambda x: "true" if x else "false"
    out = f"""/-
GENERATED by bin/translate/btree_order.py from
  rs/anda_db_btree/src/btree.rs      (fn flush_owned_with)
  rs/anda_db/src/index/btree.rs      (fn flush_inner)
Do not edit: regenerated on every check. Import-free data plus kernel-checked facts.
-/
namespace AndaVerif.Gen.BTreeOrder

/-- the effects of `flush_owned_with`, by first occurrence in the function body -/
inductive Step where
  | snapshot | bucketWrites | metaCommit | publishSaved | publishManifest | clearDirty
  deriving DecidableEq, Repr

def flushOrder : List Step := [{", ".join("." + k for k in order)}]

/-- `let generation = …;` -/
def generationExpr : String := {lean_str(gen_expr)}
/-- generation field of the `BucketObject` handed to `bucket_writer` -/
def objectGeneration : String := {lean_str(obj_gen)}
/-- manifest value of a bucket written by this flush / of a clean bucket -/
def dirtyManifestValue : String := {lean_str(dirty_val)}
def cleanManifestValue : String := {lean_str(clean_val)}
/-- the filter that selects `FlushOutcome::obsolete` from the committed manifest -/
def obsoleteFilter : String := {lean_str(obs_filter)}
/-- a failing bucket write / metadata write returns from the function at once (`.await … ?`) -/
def bucketWriteErrorAborts : Bool := {b(bucket_aborts)}
def metaWriteErrorAborts : Bool := {b(meta_aborts)}

/-- the production caller `InnerBTree::flush_inner` -/
inductive WStep where
  | flushOwned | deleteObsolete
  deriving DecidableEq, Repr

def wrapperOrder : List WStep := [{", ".join("." + k for k in worder)}]
def wrapperFlushErrorAborts : Bool := {b(wrapper_aborts)}
def wrapperDeletesOnlyObsolete : Bool := {b(deletes_obsolete_only)}

def precedes {{α : Type}} [DecidableEq α] (a b : α) (l : List α) : Bool :=
  decide (l.idxOf a < l.idxOf b) && l.contains b

/-- snapshot, then every bucket object, then the metadata (commit), and only then any in-memory
publication: the order the crash theorem of C10 (`load_prefix_btree`) needs -/
theorem gen_btree_flush_order :
    precedes .snapshot .bucketWrites flushOrder = true
    ∧ precedes .bucketWrites .metaCommit flushOrder = true
    ∧ precedes .metaCommit .publishSaved flushOrder = true
    ∧ precedes .metaCommit .publishManifest flushOrder = true
    ∧ precedes .metaCommit .clearDirty flushOrder = true := by decide

/-- one fresh generation per flush: the metadata version, used for every object written and for
their manifest entries; clean buckets keep their committed generation; obsolete = committed entries
the new manifest does not keep -/
theorem gen_btree_generation :
    generationExpr = "meta.stats.version"
    ∧ objectGeneration = "generation"
    ∧ dirtyManifestValue = "generation"
    ∧ cleanManifestValue = "*committed_generation"
    ∧ obsoleteFilter = "manifest.get(id)!=Some(generation)" := by decide

theorem gen_btree_errors_abort :
    bucketWriteErrorAborts = true ∧ metaWriteErrorAborts = true ∧ wrapperFlushErrorAborts = true := by decide

theorem gen_btree_wrapper_order :
    precedes .flushOwned .deleteObsolete wrapperOrder = true ∧ wrapperDeletesOnlyObsolete = true := by decide

end AndaVerif.Gen.BTreeOrder
"""
    os.makedirs(gen, exist_ok=True)
    open(os.path.join(gen, "BTreeOrder.lean"), "w").write(out)
    print("GEN BTreeOrder.lean")


if __name__ == "__main__":
    main()
