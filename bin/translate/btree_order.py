#!/usr/bin/env python3
"""btree_order.py <repo_root> <gen_dir>  ->  <gen_dir>/BTreeOrder.lean

Extracts, from the current source of `BTreeIndex::flush_owned_with`
(rs/anda_db_btree/src/btree.rs) and of its production caller `InnerBTree::flush_inner`
(rs/anda_db/src/index/btree.rs), the *order* and the *generation wiring* of the manifest commit
protocol:

  * the order of: dirty-bucket snapshot, bucket-object writes, metadata write (commit point),
    publication of `last_saved_version`, publication of the in-memory manifest, clearing of dirty marks;
  * where this flush's generation comes from (canonical expression after resolving local `let`s),
    that a bucket written by this flush gets that generation in the new manifest, that a clean bucket
    keeps the committed one, that the obsolete list is "committed entries the new manifest does not
    keep";
  * whether an error of a bucket write / of the metadata write leaves the function before anything
    later happens (`.await … ?`);
  * in the caller: `flush_owned_with` (error-propagating) before the best-effort deletions of exactly
    the reported obsolete objects.

Robust against behaviour-preserving rewrites: works on a comment- and string-stripped copy of the
non-test source with every call of a function defined in the same file inlined (parameters replaced by
the argument expressions), keys on what is called / which field is assigned / which closure bound a
parameter has — never on the names of locals, closure parameters, parameters of the function, helper
functions, or on layout. The two writer callbacks are recognised by their `Fn*` bounds.
Strict about meaning: a marker that cannot be found is an error (exit 2), never a default.
"""
import os
import re
import sys

sys.path.insert(0, os.path.dirname(os.path.abspath(__file__)))
from common import strip_rust_comments, cut_tests  # noqa: E402


def die(msg):
    print(f"btree_order.py: {msg}", file=sys.stderr)
    sys.exit(2)


IDENT = r"[A-Za-z_][A-Za-z0-9_]*"


def squash(s):
    return re.sub(r"\s+", "", s)


def lean_str(s):
    return '"' + s.replace("\\", "\\\\").replace('"', '\\"') + '"'


def match_close(text, open_pos):
    """index of the bracket closing the one at open_pos"""
    depth, i = 0, open_pos
    while i < len(text):
        if text[i] in "([{":
            depth += 1
        elif text[i] in ")]}":
            depth -= 1
            if depth == 0:
                return i
        i += 1
    die("unbalanced brackets")


def split_top(text, sep=","):
    out, depth, cur, angle = [], 0, [], 0
    for i, ch in enumerate(text):
        if ch in "([{":
            depth += 1
        elif ch in ")]}":
            depth -= 1
        elif ch == "<" and depth >= 0 and re.match(r"[\w>:]", text[i - 1:i] or " "):
            angle += 1
        elif ch == ">" and angle > 0 and text[i - 1:i] != "-" and text[i - 1:i] != "=":
            angle -= 1
        if ch == sep and depth == 0 and angle == 0:
            out.append("".join(cur))
            cur = []
        else:
            cur.append(ch)
    if "".join(cur).strip():
        out.append("".join(cur))
    return [x.strip() for x in out]


class Src:
    def __init__(self, text, path):
        self.text, self.path = text, path
        self.fns = {}
        self.private = set()
        for m in re.finditer(r"\bfn\s+(" + IDENT + r")\b", text):
            name = m.group(1)
            head = text[max(0, m.start() - 60):m.start()]
            if not re.search(r"\bpub\s*(?:\([^)]*\)\s*)?(?:(?:async|const|unsafe)\s+)*$", head):
                self.private.add(name)
            # parameter list
            i = m.end()
            depth = 0
            while i < len(text) and not (text[i] == "(" and depth == 0):
                if text[i] == "<":
                    depth += 1
                elif text[i] == ">" and text[i - 1] != "-":
                    depth -= 1
                i += 1
            if i >= len(text):
                continue
            pclose = match_close(text, i)
            params = text[i + 1:pclose]
            # body (first `{` at bracket depth 0 after the parameter list; `;` first = no body)
            j, d = pclose + 1, 0
            while j < len(text):
                if text[j] in "([":
                    d += 1
                elif text[j] in ")]":
                    d -= 1
                elif text[j] == "{" and d == 0:
                    break
                elif text[j] == ";" and d == 0:
                    j = -1
                    break
                j += 1
            if j < 0 or j >= len(text):
                continue
            bclose = match_close(text, j)
            self.fns.setdefault(name, (params, text[pclose + 1:j], text[j + 1:bclose]))

    def get(self, name):
        if name not in self.fns:
            die(f"{self.path}: fn {name} not found")
        return self.fns[name]

    def param_names(self, name):
        names = []
        for p in split_top(self.get(name)[0]):
            if re.match(r"^&?\s*(mut\s+)?self\b", p) or not p:
                continue
            m = re.match(r"^(?:mut\s+)?(" + IDENT + r")\s*:", p)
            names.append(m.group(1) if m else None)
        return names

    def inlined(self, name, stack=(), depth=0):
        """body of `fn name`; calls of functions defined in this file are replaced by `{ body }` with the
        callee's parameters textually replaced by the parenthesised argument expressions"""
        body = self.get(name)[2]
        if depth >= 6:
            return body
        # only private helpers are inlined; a `pub` / `pub(crate)` function is an interface and stays a call
        callable_names = (set(self.fns) & self.private) - {name} - set(stack)
        pat = re.compile(r"(?:\bself\s*\.\s*|\bSelf\s*::\s*|(?<![\w.:]))(" + IDENT + r")\s*(?:::<[^>()]*>)?\(")
        out, i = [], 0
        while True:
            m = pat.search(body, i)
            if not m:
                out.append(body[i:])
                break
            callee = m.group(1)
            if callee not in callable_names or re.search(r"\bfn\s*$", body[:m.start()]):
                out.append(body[i:m.end()])
                i = m.end()
                continue
            close = match_close(body, m.end() - 1)
            args = split_top(body[m.end():close])
            inner = self.inlined(callee, stack + (name,), depth + 1)
            for pn, arg in zip(self.param_names(callee), args):
                if pn:
                    inner = re.sub(r"(?<![\w.])" + re.escape(pn) + r"\b(?!\s*:(?!:))", "(" + arg + ")", inner)
            out.append(body[i:m.start()] + "{ " + inner + " }")
            i = close + 1
        return "".join(out)


def lets_of(body):
    """`let [mut] name [: T] = expr;` bindings (first definition of each name)"""
    lets = {}
    for m in re.finditer(r"\blet\s+(?:mut\s+)?(" + IDENT + r")\s*(?::[^=;]+)?=\s*", body):
        j, depth = m.end(), 0
        while j < len(body):
            if body[j] in "([{":
                depth += 1
            elif body[j] in ")]}":
                depth -= 1
                if depth < 0:
                    break
            elif body[j] == ";" and depth == 0:
                break
            j += 1
        lets.setdefault(m.group(1), body[m.end():j].strip())
    return lets


def canon(expr, lets, depth=0):
    """expression with local `let` names replaced by their definitions, references / derefs / clones of
    plain paths / redundant parentheses dropped, whitespace removed"""
    e = expr.strip()
    for _ in range(8):
        def sub(m):
            n = m.group(1)
            return "(" + lets[n] + ")" if n in lets and n != "self" else n
        new = re.sub(r"(?<![\w.])(" + IDENT + r")\b(?!\s*(?:\(|::|!))", sub, e)
        if new == e:
            break
        e = new
    e = squash(e)
    for _ in range(12):
        new = re.sub(r"\((&|\*|&mut)?([\w.]+(?:\(\))?(?:\.[\w]+(?:\(\))?)*)\)", r"\2", e)   # (&a.b) -> a.b
        new = re.sub(r"(?<![\w)])[&*]+(?=[\w(])", "", new)
        if new == e:
            break
        e = new
    return e


def alias_root(expr, lets):
    """the local a plain reference / clone / alias chain ends in (`(&x)`, `x.clone()`, `let y = &x;`)"""
    e = squash(expr)
    for _ in range(10):
        e2 = re.sub(r"^[&*]+", "", e)
        e2 = re.sub(r"^mut(?=\W)", "", e2)
        if e2.startswith("(") and match_close(e2, 0) == len(e2) - 1:
            e2 = e2[1:-1]
        e2 = re.sub(r"\.clone\(\)$", "", e2)
        if re.fullmatch(IDENT, e2) and e2 in lets and re.fullmatch(r"[&*(]*(?:mut)?\(*" + IDENT + r"\)*(?:\.clone\(\))?\)*", squash(lets[e2])):
            e2 = squash(lets[e2])
        if e2 == e:
            break
        e = e2
    return e


def find_required(text, patterns, what, where):
    best = None
    for p in patterns:
        m = re.search(p, text, re.S)
        if m and (best is None or m.start() < best.start()):
            best = m
    if best is None:
        die(f"fn {where}: marker `{what}` not found")
    return best


def statement_after(body, pos):
    depth, i = 0, pos
    while i < len(body):
        ch = body[i]
        if ch in "([{":
            depth += 1
        elif ch in ")]}":
            depth -= 1
            if depth < 0:
                break
        elif ch == ";" and depth == 0:
            break
        i += 1
    return body[pos:i]


def main():
    if len(sys.argv) != 3:
        die("usage: btree_order.py <repo_root> <gen_dir>")
    repo, gen = sys.argv[1], sys.argv[2]
    p1 = os.path.join(repo, "rs/anda_db_btree/src/btree.rs")
    p2 = os.path.join(repo, "rs/anda_db/src/index/btree.rs")
    for p in (p1, p2):
        if not os.path.exists(p):
            die(f"missing source file {p}")
    s1 = Src(cut_tests(strip_rust_comments(open(p1, encoding="utf-8").read())), p1)
    F = "flush_owned_with"
    params, where, _ = s1.get(F)
    sig = params + " " + where
    # the two writer callbacks, by their bounds (generic parameter + where clause, or `impl Fn…`)
    def writer(bound_re, what):
        m = re.search(r"\b(" + IDENT + r")\s*:\s*(?:impl\s+)?Fn(?:Mut|Once)?\s*\(\s*" + bound_re, sig)
        if not m:
            die(f"fn {F}: no parameter / type with a `{what}` bound")
        ty = m.group(1)
        pm = re.search(r"(?:\bmut\s+)?\b(" + IDENT + r")\s*:\s*" + re.escape(ty) + r"\b", params)
        if pm:
            return pm.group(1)
        if re.search(r"\b" + re.escape(ty) + r"\s*:\s*impl\b", params):
            return ty
        die(f"fn {F}: no parameter of the `{what}` callback type")
    bw = writer(r"BucketObject\b", "Fn(BucketObject, Vec<u8>)")
    mw = writer(r"Vec\s*<\s*u8\s*>\s*\)", "Fn(Vec<u8>)")
    body = s1.inlined(F)
    lets = lets_of(body)

    # ---- order -----------------------------------------------------------------------------------
    call = lambda n: r"(?<![\w.])\(?\s*&?\s*(?:mut\s+)?" + re.escape(n) + r"\s*\)?\s*\("
    # the publication of the manifest: an assignment to a `.buckets` field whose target is NOT a local
    # clone obtained from `self.metadata()` (that one is the snapshot being serialised)
    pub = None
    for m in re.finditer(r"(?<![\w.])(" + IDENT + r")\s*\.\s*buckets\s*=(?!=)\s*([^;}]+)", body):
        target = m.group(1)
        if re.fullmatch(r"self\.metadata\(\)", squash(lets.get(target, ""))):
            continue
        pub = (m.start(), m.group(2).strip())
        break
    if pub is None:
        die(f"fn {F}: marker `<shared metadata>.buckets = <new manifest>` not found")
    marks = {
        "snapshot": find_required(body, [r"\bBucketOwned\s*\{", r"\bserialize_dirty_buckets\s*\("], "serialisation of the dirty buckets (BucketOwned { … })", F).start(),
        "bucketWrites": find_required(body, [call(bw)], f"{bw}(…) [the Fn(BucketObject, Vec<u8>) callback]", F).start(),
        "metaCommit": find_required(body, [call(mw)], f"{mw}(…) [the Fn(Vec<u8>) callback]", F).start(),
        "publishSaved": find_required(body, [r"\blast_saved_version\s*\.\s*fetch_max\s*\("], "last_saved_version.fetch_max(", F).start(),
        "publishManifest": pub[0],
        "clearDirty": find_required(body[find_required(body, [call(bw)], "bucket writer", F).start():] if False else body,
                                    [r"&&\s*[\w.]+\s*\.\s*3\s*==[^{;]*\{\s*[\w.]+\s*\.\s*1\s*=\s*false", r"\bmark_bucket_snapshot_saved\s*\("],
                                    "clearing of a dirty mark (`bucket.1 = false` guarded by the dirty_version test)", F).start(),
    }
    order = [k for k, _ in sorted(marks.items(), key=lambda kv: kv[1])]

    # ---- generation wiring -----------------------------------------------------------------------
    bcall = statement_after(body, marks["bucketWrites"])
    mo = re.search(r"BucketObject\s*\{([^}]*)\}", bcall)
    if not mo:
        die(f"fn {F}: the bucket writer is not called with a `BucketObject {{ … }}` literal")
    gfield = [f for f in split_top(mo.group(1)) if re.match(r"generation\b", f)]
    if len(gfield) != 1:
        die(f"fn {F}: BucketObject literal has no single `generation` field")
    gexpr = gfield[0].split(":", 1)[1] if ":" in gfield[0] else "generation"
    obj_gen = canon(gexpr, lets)
    saved_gen = canon(body[find_required(body, [r"\blast_saved_version\s*\.\s*fetch_max\s*\("], "fetch_max", F).end():].split(",")[0], lets)

    # the new manifest: `if S.contains(&I) { …(I, V) } else … C.get(&I) … (I, *G)` in either spelling
    mm = find_required(body, [
        r"\bif\s+(?P<S>[\w.()&]+?)\s*\.\s*contains\s*\(\s*&?\s*(?P<I>" + IDENT + r")\s*\)\s*\{\s*"
        r"(?:[\w.()&]+?\s*\.\s*insert\s*\(\s*(?P=I)\s*,\s*(?P<V1>[^;{}]+?)\s*\)\s*;?|Some\s*\(\s*\(\s*(?P=I)\s*,\s*(?P<V2>[^;{}]+?)\s*\)\s*\))\s*\}\s*else\s*"
        r"(?:if\s+let\s+Some\s*\(\s*(?P<G1>" + IDENT + r")\s*\)\s*=\s*(?P<C1>[\w.()&]+?)\s*\.\s*get\s*\(\s*&?\s*(?P=I)\s*\)\s*\{\s*[\w.()&]+?\s*\.\s*insert\s*\(\s*(?P=I)\s*,\s*\*\s*(?P=G1)\s*\)"
        r"|\{\s*(?P<C2>[\w.()&]+?)\s*\.\s*get\s*\(\s*&?\s*(?P=I)\s*\)\s*\.\s*map\s*\(\s*\|\s*(?P<G2>" + IDENT + r")\s*\|\s*\(\s*(?P=I)\s*,\s*\*\s*(?P=G2)\s*\)\s*\))",
    ], "new manifest: `if <dirty ids>.contains(&id) { (id, <generation>) } else <committed>.get(&id) … (id, *<committed generation>)`", F)
    dirty_val = canon(mm.group("V1") or mm.group("V2"), lets)
    committed = canon(mm.group("C1") or mm.group("C2"), lets)
    dirty_set = canon(mm.group("S"), lets)
    manifest = canon(pub[1], lets)

    # the obsolete list: committed entries (I, G) with `M.get(I) != Some(G)`, closure or loop spelling
    om = find_required(body, [
        r"(?P<C>[\w.()&]+?)\s*\.\s*iter\s*\(\s*\)\s*\.\s*filter\s*\(\s*\|\s*&?\(\s*(?P<I>" + IDENT + r")\s*,\s*(?P<G>" + IDENT + r")\s*\)\s*\|\s*\{?\s*"
        r"(?P<M>[\w.()&]+?)\s*\.\s*get\s*\(\s*&?\s*(?P=I)\s*\)\s*!=\s*Some\s*\(\s*&?\s*(?P=G)\s*\)\s*\}?\s*\)",
        r"\bfor\s+\(\s*(?P<I>" + IDENT + r")\s*,\s*(?P<G>" + IDENT + r")\s*\)\s+in\s+(?P<C>[\w.()&]+?)(?:\s*\.\s*iter\s*\(\s*\))?\s*\{\s*if\s+"
        r"(?P<M>[\w.()&]+?)\s*\.\s*get\s*\(\s*&?\s*(?P=I)\s*\)\s*!=\s*Some\s*\(\s*&?\s*(?P=G)\s*\)\s*\{",
    ], "obsolete list: committed entries (id, gen) with `<new manifest>.get(id) != Some(gen)`", F)
    obs_committed = canon(om.group("C"), lets)
    obs_manifest = canon(om.group("M"), lets)
    # the value `outcome.obsolete` must be that list, and the manifest it is compared with the published one
    new_manifest_def = canon(re.sub(r"\.\s*clone\s*\(\s*\)\s*$", "", pub[1]), lets)

    bucket_aborts = ".await" in squash(bcall) and squash(bcall).endswith("?")
    mcall = statement_after(body, marks["metaCommit"])
    meta_aborts = ".await" in squash(mcall) and squash(mcall).endswith("?")

    strip_clone = lambda e: re.sub(r"\.clone\(\)$", "", e)
    facts = {
        "generationSource": obj_gen,
        "savedVersionSource": saved_gen,
        "dirtyManifestGeneration": dirty_val,
        "committedSource": strip_clone(committed),
        "obsoleteIteratesCommitted": strip_clone(obs_committed) == strip_clone(committed)
        or alias_root(om.group("C"), lets) == alias_root(mm.group("C1") or mm.group("C2"), lets),
        "obsoleteComparesWithNewManifest": alias_root(om.group("M"), lets) == alias_root(pub[1], lets)
        or strip_clone(obs_manifest) == strip_clone(new_manifest_def),
        "dirtySetFromSnapshots": bool(re.search(r"\.bucket_id\b", dirty_set)) and "collect" in dirty_set,
    }

    # ---- the production caller -------------------------------------------------------------------
    s2 = Src(cut_tests(strip_rust_comments(open(p2, encoding="utf-8").read())), p2)
    W = "flush_inner"
    wbody = s2.inlined(W)
    wf = find_required(wbody, [r"\.\s*flush_owned_with\s*\("], ".flush_owned_with(", W)
    wd = find_required(wbody, [r"\bstorage\s*\.\s*delete\s*\("], "storage.delete(", W)
    worder = [k for k, _ in sorted({"flushOwned": wf.start(), "deleteObsolete": wd.start()}.items(), key=lambda kv: kv[1])]
    wcall = statement_after(wbody, wf.start())
    wrapper_aborts = squash(wcall).endswith(".await?")
    ob = re.search(r"\.\s*obsolete\b", wbody)
    deletes_obsolete_only = bool(ob) and wf.start() < ob.start() < wd.start() and len(re.findall(r"\bstorage\s*\.\s*delete\s*\(", wbody)) == 1

    b = lambda x: "true" if x else "false"
    out = f"""/-
GENERATED by bin/translate/btree_order.py from
  rs/anda_db_btree/src/btree.rs      (fn flush_owned_with, private helpers inlined)
  rs/anda_db/src/index/btree.rs      (fn flush_inner)
Do not edit: regenerated on every check. Import-free data plus kernel-checked facts.
-/
namespace AndaVerif.Gen.BTreeOrder

/-- the effects of `flush_owned_with`, by first occurrence in the (inlined) function body -/
inductive Step where
  | snapshot | bucketWrites | metaCommit | publishSaved | publishManifest | clearDirty
  deriving DecidableEq, Repr

def flushOrder : List Step := [{", ".join("." + k for k in order)}]

/-- the generation of the `BucketObject` handed to the bucket writer, local `let`s resolved -/
def generationSource : String := {lean_str(facts["generationSource"])}
/-- the value `last_saved_version.fetch_max(…)` publishes -/
def savedVersionSource : String := {lean_str(facts["savedVersionSource"])}
/-- the generation a bucket written by this flush gets in the new manifest -/
def dirtyManifestGeneration : String := {lean_str(facts["dirtyManifestGeneration"])}
/-- where the entries kept for clean buckets come from -/
def committedSource : String := {lean_str(facts["committedSource"])}
/-- "written by this flush" = the ids of the serialised snapshots -/
def dirtySetFromSnapshots : Bool := {b(facts["dirtySetFromSnapshots"])}
/-- `FlushOutcome::obsolete` = committed entries `(id, gen)` with `new_manifest.get(id) != Some(gen)` -/
def obsoleteIteratesCommitted : Bool := {b(facts["obsoleteIteratesCommitted"])}
def obsoleteComparesWithNewManifest : Bool := {b(facts["obsoleteComparesWithNewManifest"])}
/-- a failing bucket write / metadata write returns from the function at once (`.await … ?`) -/
def bucketWriteErrorAborts : Bool := {b(bucket_aborts)}
def metaWriteErrorAborts : Bool := {b(meta_aborts)}

/-- the production caller `InnerBTree::flush_inner` -/
inductive WStep where
  | flushOwned | deleteObsolete
  deriving DecidableEq, Repr

def wrapperOrder : List WStep := [{", ".join("." + k for k in worder)}]
def wrapperFlushErrorAborts : Bool := {b(wrapper_aborts)}
def wrapperDeletesOnlyObsolete : Bool := {b(deletes_obsolete_only)}

def precedes {{α : Type}} [DecidableEq α] (a b : α) (l : List α) : Bool :=
  decide (l.idxOf a < l.idxOf b) && l.contains b

/-- snapshot, then every bucket object, then the metadata (commit), and only then any in-memory
publication: the order the crash theorem of C10 (`load_prefix_btree`) needs -/
theorem gen_btree_flush_order :
    precedes .snapshot .bucketWrites flushOrder = true
    ∧ precedes .bucketWrites .metaCommit flushOrder = true
    ∧ precedes .metaCommit .publishSaved flushOrder = true
    ∧ precedes .metaCommit .publishManifest flushOrder = true
    ∧ precedes .metaCommit .clearDirty flushOrder = true := by decide

/-- one fresh generation per flush: the version of the metadata snapshot being committed, used for
every object written, for their manifest entries and for `last_saved_version`; clean buckets keep
the entry of the committed manifest; obsolete = committed entries the new manifest does not keep -/
theorem gen_btree_generation :
    generationSource = "self.metadata().stats.version"
    ∧ savedVersionSource = generationSource
    ∧ dirtyManifestGeneration = generationSource
    ∧ committedSource = "self.metadata().buckets"
    ∧ dirtySetFromSnapshots = true
    ∧ obsoleteIteratesCommitted = true
    ∧ obsoleteComparesWithNewManifest = true := by decide

theorem gen_btree_errors_abort :
    bucketWriteErrorAborts = true ∧ metaWriteErrorAborts = true ∧ wrapperFlushErrorAborts = true := by decide

theorem gen_btree_wrapper_order :
    precedes .flushOwned .deleteObsolete wrapperOrder = true ∧ wrapperDeletesOnlyObsolete = true := by decide

end AndaVerif.Gen.BTreeOrder
"""
    os.makedirs(gen, exist_ok=True)
    open(os.path.join(gen, "BTreeOrder.lean"), "w").write(out)
    print("GEN BTreeOrder.lean")


if __name__ == "__main__":
    main()
