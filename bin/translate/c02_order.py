#!/usr/bin/env python3
"""C02 / C04: regenerates the *order and bookkeeping shape* of the index maintenance paths that
`Model/Collection.lean` mirrors by hand:

  * add_impl / update_impl / remove_impl: the order of the three index families, whether an index is
    recorded in the rollback set before or after its insert, that the rollback closures undo every
    recorded set and run on every failure exit, that the document object is written after the index
    phase and the id bitmap after it;
  * BTree::update (wrapper) = insert(new) then remove(old); BTreeIndex::batch_update = insert_array
    then remove_array; insert_array pre-checks uniqueness before its first mutation;
  * create_btree_index: backfill before registration, unique / multi-field indexes at position 0.

Strict about meaning (a missing or ambiguous anchor is an error, never a default), tolerant about
spelling: anchors are WHAT IS CALLED (`index_hooks.btree_index_value(`, `.insert(` / `.remove(` /
`.update(` with their arity, `storage.create(`, `self.doc_ids_index`, `fetch_add(`, …), their nesting
(inside which index family, inside the rollback closure) and their first-occurrence order — never the
names of locals, closures, loop variables or temporaries. Private helper functions that a refactoring
extracted are looked through (their body is scanned at the call site); the private functions that
exist today and carry a meaning of their own (`record_mutation_intent`, `poison`, …) and every `pub`
function stay opaque calls."""
import re, sys
from common import *

repo, gen = sys.argv[1], sys.argv[2]
csrc = cut_tests(strip_rust_comments(read_source(repo, "rs/anda_db/src/collection.rs")))
wsrc = cut_tests(strip_rust_comments(read_source(repo, "rs/anda_db/src/index/btree.rs")))
bsrc = cut_tests(strip_rust_comments(read_source(repo, "rs/anda_db_btree/src/btree.rs")))
dsrc = cut_tests(strip_rust_comments(read_source(repo, "rs/anda_db/src/database.rs")))


def fail(msg):
    die("c02_order: " + msg)


# ------------------------------------------------------------------------------------------------
# text helpers
# ------------------------------------------------------------------------------------------------
OPEN, CLOSE = "([{", ")]}"


def close_of(text, i):
    """index just after the bracket that closes the one opened just BEFORE position i"""
    depth = 1
    while i < len(text) and depth:
        if text[i] in OPEN:
            depth += 1
        elif text[i] in CLOSE:
            depth -= 1
        i += 1
    return i


def split_args(text, i):
    """text[i-1] == '(' : returns (list of top-level arguments, index just after the closing paren)"""
    end = close_of(text, i)
    inner, args, depth, cur = text[i:end - 1], [], 0, []
    for ch in inner:
        if ch in OPEN:
            depth += 1
        elif ch in CLOSE:
            depth -= 1
        if ch == "," and depth == 0:
            args.append("".join(cur).strip()); cur = []
        else:
            cur.append(ch)
    last = "".join(cur).strip()
    if last:
        args.append(last)
    return args, end


def method_calls(text, method):
    """all `.method(` calls in text: (position, arguments, is followed by `?`)"""
    out = []
    for m in re.finditer(r"\.\s*" + method + r"\s*\(", text):
        args, end = split_args(text, m.end())
        out.append((m.start(), args, text[end:end + 12].lstrip().startswith("?")))
    return out


def first_call(text, method, arity, what):
    ps = [p for p, a, _ in method_calls(text, method) if len(a) == arity]
    if not ps:
        fail(f"no `.{method}(` call with {arity} arguments in {what}")
    return ps[0]


def bare(arg):
    return re.sub(r"\s+", "", arg).lstrip("&")


def pos(text, pat, what):
    m = re.search(pat, text)
    if not m:
        fail(f"marker `{pat}` ({what}) not found")
    return m.start()


def last_pos(text, pat, what):
    ms = [m.start() for m in re.finditer(pat, text)]
    if not ms:
        fail(f"marker `{pat}` ({what}) not found")
    return ms[-1]


def loop_spans(text):
    """(start, end) of every loop construct: `for … {…}`, `while … {…}`, `loop {…}` and the closure
    argument of `.for_each(…)` / `.try_for_each(…)` / `.for_each_concurrent(…)`"""
    spans = []
    for m in re.finditer(r"\b(?:for|while|loop)\b[^{;]*\{", text):
        spans.append((m.start(), close_of(text, m.end())))
    for m in re.finditer(r"\.\s*(?:try_)?for_each\w*\s*\(", text):
        spans.append((m.start(), close_of(text, m.end())))
    return spans


CALL = re.compile(r"(?:\bself\s*\.\s*|\bSelf::\s*|(?<![\w.:]))([A-Za-z_][A-Za-z0-9_]*)\s*(?:::<[^>()]*>)?\(")


def expander(src, opaque):
    """expand(fn): body of fn in which every call of a PRIVATE function defined exactly once in the same
    file and not listed as opaque is followed by `{ <its expanded body> }` — a marker scan sees the same
    effects in the same order whether or not a block lives in a helper. Closures with parameters
    (`let touches = |x| …;`) are looked through the same way."""
    pub = set(re.findall(r"\bpub(?:\([^)]*\))?\s+(?:async\s+|const\s+|unsafe\s+)*fn\s+(\w+)", src))
    once = {n for n in all_fn_names(src) if len(re.findall(r"\bfn\s+" + n + r"\b", src)) == 1}
    through = once - pub - set(opaque)

    def closures_through(body):
        for m in list(re.finditer(r"\blet\s+(\w+)\s*=\s*(?:move\s+)?\|([^|]+)\|\s*", body)):
            name, j = m.group(1), m.end()
            if body[j] == "{":
                cbody = body[j:close_of(body, j + 1)]
            else:
                k, depth = j, 0
                while k < len(body) and not (body[k] == ";" and depth == 0):
                    depth += (body[k] in OPEN) - (body[k] in CLOSE)
                    k += 1
                cbody = "{ " + body[j:k] + " }"
            out, i = [], 0
            for c in re.finditer(r"(?<![\w.:|])" + name + r"\s*\(", body):
                if c.start() < m.end() or c.start() < i:
                    continue
                e = close_of(body, c.end())
                out.append(body[i:e] + " " + cbody + " ")
                i = e
            out.append(body[i:])
            body = "".join(out)
        return body

    def expand(name, stack=()):
        body = try_fn_body(src, name)
        if body is None:
            fail(f"fn {name} not found")
        out, i = [], 0
        while len(stack) < 6:
            m = CALL.search(body, i)
            if not m:
                break
            callee = m.group(1)
            if callee not in through or callee == name or callee in stack or re.search(r"\bfn\s*$", body[:m.start()]):
                out.append(body[i:m.end()]); i = m.end(); continue
            e = close_of(body, m.end())
            out.append(body[i:e] + " { " + expand(callee, stack + (name,)) + " } ")
            i = e
        out.append(body[i:])
        return closures_through("".join(out))

    return expand


cexp = expander(csrc, ["ensure_allocation_watermark", "doc_path", "poison", "update_metadata", "doc_lock",
                       "record_mutation_intent", "purge_dead_ids_from_indexes", "ensure_mutable",
                       "backfill_btree_index", "for_each_existing_document",
                       # crash recovery: the phases and their building blocks are calls with a meaning of their own
                       "load_indexes", "try_upgrade_schema", "replay_mutation_intents", "reconcile_mutation_intents",
                       "auto_repair_indexes", "repair_document", "remove_document_from_indexes",
                       "insert_document_into_indexes", "clear_mutation_intents", "mutation_intent_path"])
dexp = expander(dsrc, ["drain_operations"])
wexp = expander(wsrc, ["insert", "remove", "update", "batch_update", "insert_array", "remove_array",
                       "values_equal", "convert_array_values", "name"])
bexp = expander(bsrc, ["try_cbor_serialized_size", "json_value", "try_posting_entry_size", "mark_bucket_dirty",
                       "posting_entry_size", "previous_posting_size_after_append", "update_metadata"])

HOOK = {"bt": r"\bbtree_index_value\s*\(", "tx": r"\bbm25_index_value\s*\(", "hn": r"\bhnsw_index_value\s*\("}
LIST = {"bt": r"\bself\s*\.\s*btree_indexes\b", "tx": r"\bself\s*\.\s*bm25_indexes\b", "hn": r"\bself\s*\.\s*hnsw_indexes\b"}


def rollback_closure(body, fn, must_call):
    """the zero-argument closure `let <any name> = || { … }` of fn whose body calls `.must_call(`:
    (name, closure body, start of the `let`, index just after the closing brace)"""
    found = []
    for m in re.finditer(r"\blet\s+(\w+)\s*=\s*(?:move\s+)?\|\s*\|\s*\{", body):
        e = close_of(body, m.end())
        cb = body[m.end():e - 1]
        if method_calls(cb, must_call):
            found.append((m.group(1), cb, m.start(), e))
    if len(found) != 1:
        fail(f"expected exactly one rollback closure (`let … = || {{ … .{must_call}( … }}`) in {fn}, found {len(found)}")
    return found[0]


def phase(body, fn, closure_span=None):
    """body with the rollback closure blanked; family order (by first index-hook call) and the text
    segment of each family (from its `self.<family>_indexes` walk to the next family / end of phase)"""
    text = body
    if closure_span:
        s, e = closure_span
        text = body[:s] + " " * (e - s) + body[e:]
    hook = {k: pos(text, p, f"{fn}: index hook of family {k}") for k, p in HOOK.items()}
    order = sorted(hook, key=lambda k: hook[k])
    start, prev_hook = {}, 0
    for k in order:
        walks = [m.start() for m in re.finditer(LIST[k], text) if prev_hook <= m.start() < hook[k]]
        if not walks:
            fail(f"{fn}: no walk over `self.{'btree' if k == 'bt' else 'bm25' if k == 'tx' else 'hnsw'}_indexes` before its hook call")
        start[k] = walks[-1]
        prev_hook = hook[k]
    end_all = closure_span[0] if closure_span and closure_span[0] > hook[order[-1]] else len(text)
    seg = {}
    for n, k in enumerate(order):
        seg[k] = text[start[k]:(start[order[n + 1]] if n + 1 < len(order) else end_all)]
    return text, order, hook, seg, end_all


def fam_num(f):
    return {"bt": 0, "tx": 1, "hn": 2}[f]


def no_exit_between(text, a, b_):
    return not re.search(r"\breturn\b|\?", text[a:b_])


# ------------------------------------------------------------------------------------------------
# add_impl
# ------------------------------------------------------------------------------------------------
add = cexp("add_impl")
a_name, a_rb, a_s, a_e = rollback_closure(add, "add_impl", "remove")
a_text, add_fams, a_hook, a_seg, a_end = phase(add, "add_impl", (a_s, a_e))
# record = the 2-argument `.insert(index, value)` on a rollback map; index insert = the 3-argument one
add_bt_rec_first = first_call(a_seg["bt"], "insert", 2, "add_impl B-tree family (record)") < first_call(a_seg["bt"], "insert", 3, "add_impl B-tree family (index insert)")
add_tx_rec_after = first_call(a_seg["tx"], "insert", 3, "add_impl BM25 family (index insert)") < first_call(a_seg["tx"], "insert", 2, "add_impl BM25 family (record)")
add_hn_rec_first = first_call(a_seg["hn"], "insert", 2, "add_impl HNSW family (record)") < first_call(a_seg["hn"], "insert", 3, "add_impl HNSW family (index insert)")
# the rollback closure removes from two value-keyed families (3 arguments) and from HNSW (2 arguments)
add_rb_all = sorted(len(a) for _, a, _ in method_calls(a_rb, "remove")) == [2, 3, 3]
a_calls = [m.start() for m in re.finditer(r"(?<![\w.])" + a_name + r"\s*\(\s*\)", a_text)]
add_rb_calls = len(a_calls) >= 2 and no_exit_between(a_text, a_e, a_calls[0])
a_create = pos(a_text, r"\bstorage\s*\.\s*create\s*\(", "add_impl storage.create")
add_doc_after_index = a_hook[add_fams[-1]] < a_create
add_ids_after_doc = a_create < pos(a_text, r"\bself\s*\.\s*doc_ids\s*\.\s*write\s*\(", "add_impl id bitmap")
add_validate_before_alloc = pos(a_text, r"\.\s*validate\s*\(", "add_impl validate") < pos(a_text, r"\bmax_document_id\s*\.\s*fetch_add\s*\(", "add_impl id allocation")

# ------------------------------------------------------------------------------------------------
# update_impl
# ------------------------------------------------------------------------------------------------
upd = cexp("update_impl")
u_name, u_rb, u_s, u_e = rollback_closure(upd, "update_impl", "update")
u_text, upd_fams, u_hook, u_seg, u_end = phase(upd, "update_impl", (u_s, u_e))
u_fwd = [c for c in method_calls(u_seg["bt"], "update") if len(c[1]) == 4]
if not u_fwd:
    fail("no 4-argument `.update(` call in the B-tree family of update_impl")
u_rec = [c for c in method_calls(u_seg["bt"], "insert") if len(c[1]) == 2]
if not u_rec:
    fail("no 2-argument `.insert(` (rollback record) in the B-tree family of update_impl")
upd_bt_rec_after = u_fwd[0][0] < u_rec[0][0]
upd_tx_remove_first = first_call(u_seg["tx"], "remove", 3, "update_impl BM25 family (remove old)") < first_call(u_seg["tx"], "insert", 3, "update_impl BM25 family (insert new)")
# only touched indexes: each family consults the index's field list and the set of updated fields before
# its first index call
upd_only_touched = all(
    (lambda s, stop: bool(re.search(acc, s[:stop])) and bool(re.search(r"\.\s*contains\s*\(", s[:stop])))(
        u_seg[k], first_call(u_seg[k], meth, ar, f"update_impl family {k}"))
    for k, acc, meth, ar in [("bt", r"\.\s*virtual_field\s*\(\s*\)", "update", 4), ("tx", r"\.\s*virtual_field\s*\(\s*\)", "remove", 3),
                             ("hn", r"\.\s*field_name\s*\(\s*\)", "remove", 2)])
upd_rb_all = (len([c for c in method_calls(u_rb, "update") if len(c[1]) == 4]) == 1
              and sorted(len(a) for _, a, _ in method_calls(u_rb, "remove")) == [2, 3]
              and sorted(len(a) for _, a, _ in method_calls(u_rb, "insert")) == [3, 3])
# the record is the pair (from, to) of the forward `update(id, from, to, …)`; the rollback calls
# `update(id, pair.1, pair.0, …)` whatever the pair's components are called
rec_pair = re.fullmatch(r"\(\s*([\w.]+)\s*,\s*([\w.]+)\s*\)", u_rec[0][1][1])
if not rec_pair:
    fail("the B-tree rollback record of update_impl is not a pair `(from, to)`")
fwd_consistent = (bare(u_fwd[0][1][1]), bare(u_fwd[0][1][2])) == (rec_pair.group(1), rec_pair.group(2))
rb_upd = [c for c in method_calls(u_rb, "update") if len(c[1]) == 4]
if not rb_upd:
    fail("no 4-argument `.update(` call in the rollback closure of update_impl")
binds = [m for m in re.finditer(r"(?:\bfor\s*|\|\s*)\(\s*\w+\s*,\s*(\w+|\(\s*\w+\s*,\s*\w+\s*\))\s*\)\s*(?:in\b|\|)", u_rb) if m.start() < rb_upd[0][0]]
if not binds:
    fail("cannot find the `(index, pair)` binding of the B-tree restore loop in the rollback closure of update_impl")
pat_ = re.sub(r"\s+", "", binds[-1].group(1))
r2_, r3_ = bare(rb_upd[0][1][1]), bare(rb_upd[0][1][2])
if pat_.startswith("("):
    x_, y_ = pat_[1:-1].split(",")
    upd_rb_swaps = fwd_consistent and (r2_, r3_) == (y_, x_)
else:
    upd_rb_swaps = fwd_consistent and (r2_, r3_) == (pat_ + ".1", pat_ + ".0")
rb_removes = [p for p, _, _ in method_calls(u_rb, "remove")]
rb_inserts = [p for p, _, _ in method_calls(u_rb, "insert")]
upd_rb_remove_new_before_reinsert = bool(rb_removes) and bool(rb_inserts) and max(rb_removes) < min(rb_inserts)
u_calls = [m.start() for m in re.finditer(r"(?<![\w.])" + u_name + r"\s*\(\s*\)", u_text)]
if len(u_calls) < 2:
    fail("the rollback closure of update_impl is invoked on fewer than two failure paths")
upd_poison_on_failed_restore = bool(re.search(r"\bpoison\s*\(", u_text[u_calls[0]:u_calls[1]]))
upd_rb_unconditional = no_exit_between(u_text, u_e, u_calls[0])
upd_doc_after_index = any(m.start() > u_hook[upd_fams[-1]] for m in re.finditer(r"\bstorage\s*\.\s*put\s*\(", u_text)) and \
    not re.search(r"\bstorage\s*\.\s*put\s*\(", u_text[u_hook[upd_fams[0]]:u_end])
upd_validate_before_index = pos(u_text, r"\.\s*validate\s*\(", "update_impl validate") < u_hook[upd_fams[0]]

# ------------------------------------------------------------------------------------------------
# remove_impl
# ------------------------------------------------------------------------------------------------
rem = cexp("remove_impl")
r_text, rem_fams, r_hook, r_seg, _ = phase(rem, "remove_impl")
r_delete = pos(r_text, r"\bstorage\s*\.\s*delete\s*\(", "remove_impl storage.delete")
rem_index_before_delete = r_hook[rem_fams[-1]] < r_delete
rem_delete_before_bitmap = r_delete < pos(r_text, r"\bself\s*\.\s*doc_ids_index\b", "remove_impl id bitmap")

# ------------------------------------------------------------------------------------------------
# wrapper BTree::update: values_equal short-circuit first; scalar transition = insert(new)? then remove(old)
# ------------------------------------------------------------------------------------------------
wupd = wexp("update")
w_insert_first = last_pos(wupd, r"\bself\s*\.\s*insert\s*\(", "BTree::update insert(new)") < last_pos(wupd, r"\bself\s*\.\s*remove\s*\(", "BTree::update remove(old)")
w_equal_noop = pos(wupd, r"\bself\s*\.\s*values_equal\s*\(", "BTree::update values_equal") < pos(wupd, r"\bself\s*\.\s*insert\s*\(", "BTree::update first insert")
# BTreeIndex::batch_update: insert_array then remove_array
bupd = bexp("batch_update")
b_insert_first = pos(bupd, r"\bself\s*\.\s*insert_array\s*\(", "batch_update insert_array") < pos(bupd, r"\bself\s*\.\s*remove_array\s*\(", "batch_update remove_array")
# BTreeIndex::insert_array: uniqueness pre-check before the first mutation, re-check inside the entry
iarr = bexp("insert_array")
ia_precheck = pos(iarr, r"BTreeError::AlreadyExists", "insert_array pre-check") < pos(iarr, r"\bpostings\s*\.\s*entry\s*\(", "insert_array entry")
ia_recheck = len(re.findall(r"BTreeError::AlreadyExists", iarr)) >= 2
ins = bexp("insert")
i_check_in_entry = pos(ins, r"\bpostings\s*\.\s*entry\s*\(", "insert entry") < pos(ins, r"BTreeError::AlreadyExists", "insert uniqueness check")

# ------------------------------------------------------------------------------------------------
# create_btree_index: backfill before registration; unique at the front
# ------------------------------------------------------------------------------------------------
cbi = cexp("create_btree_index")
REG = r"\bself\s*\.\s*btree_indexes\s*\.\s*(?:insert|push)\s*\("
c_backfill_first = pos(cbi, r"\bbackfill_btree_index\s*\(", "create_btree_index backfill") < pos(cbi, REG, "create_btree_index registration")
c_both_backfill = len(re.findall(r"\bbackfill_btree_index\s*\(", cbi)) == 2
FRONT, BACK = r"\bbtree_indexes\s*\.\s*insert\s*\(\s*0\s*,", r"\bbtree_indexes\s*\.\s*push\s*\("
c_unique_front = False
for m in re.finditer(r"\bif\s+(!?)\s*[\w.]+\s*\.\s*unique\s*\(\s*\)\s*\{", cbi):
    e1 = close_of(cbi, m.end())
    m2 = re.match(r"\s*else\s*\{", cbi[e1:])
    if not m2:
        continue
    then_, else_ = cbi[m.end():e1 - 1], cbi[e1 + m2.end():close_of(cbi, e1 + m2.end()) - 1]
    yes, no = (else_, then_) if m.group(1) else (then_, else_)
    if re.search(FRONT, yes) and not re.search(BACK, yes) and re.search(BACK, no) and not re.search(FRONT, no):
        c_unique_front = True
for m in re.finditer(r"\bmatch\s+[\w.]+\s*\.\s*unique\s*\(\s*\)\s*\{", cbi):
    arms = cbi[m.end():close_of(cbi, m.end()) - 1]
    t, f = re.search(r"\btrue\s*=>", arms), re.search(r"\bfalse\s*=>", arms)
    if t and f:
        yes, no = (arms[t.end():f.start()], arms[f.end():]) if t.start() < f.start() else (arms[t.end():], arms[f.end():t.start()])
        if re.search(FRONT, yes) and not re.search(BACK, yes) and re.search(BACK, no) and not re.search(FRONT, no):
            c_unique_front = True
c_multi_front = len(re.findall(r"\bself\s*\.\s*" + FRONT[2:], cbi)) == 2
wvf = fn_body(wsrc, "with_virtual_field")
c_multi_unique = bool(re.search(r"\ballow_duplicates\s*:\s*false\b", wvf))



# ------------------------------------------------------------------------------------------------
# crash recovery: Collection::open = load, callback, replay_mutation_intents, auto_repair_indexes;
# AndaDB::open_collection ends with a flush
# ------------------------------------------------------------------------------------------------
m_sig = re.search(r"\bfn\s+open\b\s*<[^>]*>\s*\(", csrc)
if not m_sig:
    fail("signature of Collection::open not found")
sig = csrc[m_sig.end():close_of(csrc, m_sig.end())]
m_cb = re.search(r"\b(\w+)\s*:\s*F\b", sig)
if not m_cb:
    fail("Collection::open has no callback parameter of type F")
opn = cexp("open")
rec_pos = {0: pos(opn, r"(?<![\w.:])" + m_cb.group(1) + r"\s*\(", "Collection::open: call of the callback"),
           1: pos(opn, r"\breplay_mutation_intents\s*\(", "Collection::open: replay_mutation_intents"),
           2: pos(opn, r"\bauto_repair_indexes\s*\(", "Collection::open: auto_repair_indexes")}
recovery_order = sorted(rec_pos, key=lambda k: rec_pos[k])
rec_load_first = pos(opn, r"\bload_indexes\s*\(", "Collection::open: load_indexes") < min(rec_pos.values())
rpl = cexp("replay_mutation_intents")
rec_replay_reconciles = bool(re.search(r"\breconcile_mutation_intents\s*\(", rpl))
rcn = cexp("reconcile_mutation_intents")
r_removes = [m.start() for m in re.finditer(r"\bremove_document_from_indexes\s*\(", rcn)]
r_fetch = pos(rcn, r"\bstorage\s*\.\s*fetch\b", "reconcile_mutation_intents: fetch of the stored document")
r_insert = pos(rcn, r"\binsert_document_into_indexes\s*\(", "reconcile_mutation_intents: re-index")
if not r_removes:
    fail("reconcile_mutation_intents never calls remove_document_from_indexes")
# every recorded image is un-indexed before any stored document is consulted; the stored document's own
# values are removed before they are re-inserted; the id is registered after the re-index
rec_images_first = min(r_removes) < r_fetch
rec_remove_before_reinsert = any(r_fetch < p < r_insert for p in r_removes)
# two global passes: the pass that un-indexes the recorded images (the removal that precedes any fetch) is
# complete before the first re-index — no loop contains both calls (a fused per-document pass would)
rec_two_passes = rec_images_first and not any(a <= min(r_removes) < e and a <= r_insert < e for a, e in loop_spans(rcn))
rec_register_after = r_insert < pos(rcn[r_insert:], r"\bdoc_ids\s*\.\s*write\s*\(\s*\)\s*\.\s*add\s*\(", "reconcile_mutation_intents: id registration") + r_insert
rec_gone_unregisters = bool(re.search(r"\bdoc_ids\s*\.\s*write\s*\(\s*\)\s*\.\s*remove\s*\(", rcn[r_insert:]))
scn = cexp("auto_repair_indexes")
rec_scan_window = bool(re.search(r"\bcheck_point\s*\+\s*1\b", scn)) and bool(re.search(r"\brepair_document\s*\(", scn))
rpd = cexp("repair_document")
# repair: every index on its own (no `?` after an index insert); insert_document_into_indexes: first refusal ends it
rec_repair_best_effort = len(method_calls(rpd, "insert")) >= 3 and not any(q for _, a, q in method_calls(rpd, "insert") if len(a) == 3)
idi = cexp("insert_document_into_indexes")
idi_ins = [q for _, a, q in method_calls(idi, "insert") if len(a) == 3]
rec_reinsert_stops = len(idi_ins) == 3 and all(idi_ins)
rdi = cexp("remove_document_from_indexes")
rec_remove_all_families = sorted(len(a) for _, a, _ in method_calls(rdi, "remove")) == [2, 3, 3]
ocs = dexp("open_collection_with_schema")
rec_open_flushes = pos(ocs, r"\bCollection::open\s*\(", "open_collection_with_schema: Collection::open") < pos(ocs, r"\.\s*flush\s*\(", "open_collection_with_schema: final flush")
# flush_inner: the intents are retired last (after indexes, metadata, ids, checkpoint)
fli = cexp("flush_inner")
rec_intents_retired_last = max(last_pos(fli, r"\bstore_indexes\s*\(", "flush_inner store_indexes"), last_pos(fli, r"\bstore_ids\s*\(", "flush_inner store_ids"),
                               last_pos(fli, r"\bstorage\s*\.\s*store_metadata\s*\(", "flush_inner checkpoint")) < pos(fli, r"\bclear_mutation_intents\s*\(", "flush_inner clear_mutation_intents")
# update_impl / remove_impl: the intent is written before the first index is touched
upd_intent_first = pos(u_text, r"\brecord_mutation_intent\s*\(", "update_impl record_mutation_intent") < u_hook[upd_fams[0]]
rem_intent_first = pos(r_text, r"\brecord_mutation_intent\s*\(", "remove_impl record_mutation_intent") < r_hook[rem_fams[0]]


def b(x):
    return "true" if x else "false"


def fl(fs):
    return "[" + ", ".join(str(fam_num(f)) for f in fs) + "]"


text = f"""/- GENERATED by bin/translate/c02_order.py from rs/anda_db/src/collection.rs, rs/anda_db/src/index/btree.rs and
rs/anda_db_btree/src/btree.rs — do not edit. Families: 0 = B-tree, 1 = BM25, 2 = HNSW. -/
namespace AndaVerif.Gen.CollOrder

/-- order in which `add_impl` / `update_impl` / `remove_impl` walk the index families -/
def addFamilies : List Nat := {fl(add_fams)}
def updFamilies : List Nat := {fl(upd_fams)}
def remFamilies : List Nat := {fl(rem_fams)}

/-- add_impl: validation precedes the id allocation (an invalid document consumes no id) -/
def addValidateBeforeAlloc : Bool := {b(add_validate_before_alloc)}
/-- add_impl: `btree_inserted` / `hnsw_inserted` are written before the insert (the failing index is in the
rollback set), `bm25_inserted` after it -/
def addBtRecordedFirst : Bool := {b(add_bt_rec_first)}
def addTxRecordedAfter : Bool := {b(add_tx_rec_after)}
def addHnRecordedFirst : Bool := {b(add_hn_rec_first)}
/-- add_impl: the rollback closure undoes all three recorded sets (three `remove` calls) and is invoked on
both failure paths, with no exit between the index phase and its first invocation -/
def addRollbackCoversAll : Bool := {b(add_rb_all and add_rb_calls)}
/-- add_impl: document object after the index phase, id bitmap after the document object -/
def addDocAfterIndexes : Bool := {b(add_doc_after_index)}
def addIdsAfterDoc : Bool := {b(add_ids_after_doc)}

/-- update_impl: whole-document validation precedes the index phase -/
def updValidateBeforeIndexes : Bool := {b(upd_validate_before_index)}
/-- update_impl: `btree_updated` is written after a successful `index.update` (a failing update is not
rolled back) -/
def updBtRecordedAfter : Bool := {b(upd_bt_rec_after)}
/-- update_impl: BM25 `remove(old)` precedes `insert(new)` -/
def updTxRemoveFirst : Bool := {b(upd_tx_remove_first)}
/-- update_impl: only indexes whose fields intersect the updated fields are refreshed -/
def updOnlyTouched : Bool := {b(upd_only_touched)}
/-- update_impl: the rollback closure covers all five recorded sets, restores B-trees by `update(new, old)`,
removes the new BM25/HNSW entries before re-inserting the old ones, and a failed restore poisons -/
def updRollbackCoversAll : Bool := {b(upd_rb_all)}
def updRollbackSwaps : Bool := {b(upd_rb_swaps)}
def updRollbackRemovesNewFirst : Bool := {b(upd_rb_remove_new_before_reinsert)}
def updPoisonOnFailedRestore : Bool := {b(upd_poison_on_failed_restore)}
/-- update_impl: no exit (`return`, `?`) between the index phase and the first invocation of the rollback
closure: every failure of the index phase is rolled back -/
def updRollbackOnEveryFailure : Bool := {b(upd_rb_unconditional)}
def updDocAfterIndexes : Bool := {b(upd_doc_after_index)}

/-- remove_impl: index entries, then the document object, then the id bitmap -/
def remIndexesBeforeDelete : Bool := {b(rem_index_before_delete)}
def remDeleteBeforeIds : Bool := {b(rem_delete_before_bitmap)}

/-- `BTree::update` (wrapper): `values_equal` short-circuit first; `insert(new)?` before `remove(old)` -/
def wrapperEqualIsNoop : Bool := {b(w_equal_noop)}
def wrapperInsertBeforeRemove : Bool := {b(w_insert_first)}
/-- `BTreeIndex::batch_update`: `insert_array` before `remove_array` -/
def batchInsertBeforeRemove : Bool := {b(b_insert_first)}
/-- `BTreeIndex::insert_array`: uniqueness pre-check before the first mutation and a re-check inside the
posting entry; `BTreeIndex::insert`: the uniqueness check is inside the posting entry -/
def insertArrayPrecheck : Bool := {b(ia_precheck)}
def insertArrayRecheckInEntry : Bool := {b(ia_recheck)}
def insertCheckInEntry : Bool := {b(i_check_in_entry)}

/-- `create_btree_index`: backfill (both the single- and the multi-field path) before registration; a unique
single-field index and every multi-field index go to position 0; a multi-field index never allows duplicates -/
def createBackfillBeforeRegister : Bool := {b(c_backfill_first and c_both_backfill)}
def createUniqueAtFront : Bool := {b(c_unique_front and c_multi_front)}
def multiFieldIsUnique : Bool := {b(c_multi_unique)}

/-- crash recovery (`Model/CollCrash.lean`). `Collection::open` after loading the last flush: 0 = the caller's
callback, 1 = `replay_mutation_intents`, 2 = `auto_repair_indexes`, in the order the code has them -/
def recoveryOrder : List Nat := [{", ".join(str(k) for k in recovery_order)}]
/-- `load_indexes` precedes all of them; `replay_mutation_intents` reconciles through `reconcile_mutation_intents` -/
def recoverLoadsFirst : Bool := {b(rec_load_first and rec_replay_reconciles)}
/-- `reconcile_mutation_intents`: the indexed values of every recorded image are removed before any stored
document is consulted; the stored document's own values are removed before they are re-inserted; the id is
registered after the re-index; a document that is gone is unregistered -/
def replayImagesFirst : Bool := {b(rec_images_first)}
/-- … and that un-index pass over ALL intents is complete before the first document is re-indexed: no loop
contains both the un-indexing of the images and the re-index (two passes in sequence, not one fused pass per
document — in which a lower-id taker would be re-indexed while the stale posting of a higher-id releaser is
still there) -/
def replayTwoGlobalPasses : Bool := {b(rec_two_passes)}
def replayRemoveBeforeReinsert : Bool := {b(rec_remove_before_reinsert)}
def replayRegistersAfterReindex : Bool := {b(rec_register_after and rec_gone_unregisters)}
/-- `remove_document_from_indexes` removes from all three families; `insert_document_into_indexes` ends at the
first index that refuses; `repair_document` tries every index on its own -/
def removeDocAllFamilies : Bool := {b(rec_remove_all_families)}
def reinsertStopsAtFirstRefusal : Bool := {b(rec_reinsert_stops)}
def repairIsBestEffort : Bool := {b(rec_repair_best_effort)}
/-- `auto_repair_indexes` probes `check_point + 1 ..` and hands every document object to `repair_document` -/
def scanStartsAboveCheckpoint : Bool := {b(rec_scan_window)}
/-- `open_collection_with_schema`: `Collection::open`, then a flush; `flush_inner` retires the intents last;
`update_impl` / `remove_impl` write their intent before the first index is touched -/
def openEndsWithFlush : Bool := {b(rec_open_flushes)}
def intentsRetiredLast : Bool := {b(rec_intents_retired_last)}
def intentBeforeIndexes : Bool := {b(upd_intent_first and rem_intent_first)}

/-- the shape `Model/Collection.lean` (`add`, `update`, `remove`, `phases`, `addBtF`, `addTxF`, `addHnF`,
`updBtF`, `updTxF`, `btUpdate`, `relBatchUpdate`, `relInsertArray`, `createBt`) was written against -/
theorem gen_family_order : addFamilies = [0, 1, 2] ∧ updFamilies = [0, 1, 2] ∧ remFamilies = [0, 1, 2] := by decide
theorem gen_add_shape : (addValidateBeforeAlloc && addBtRecordedFirst && addTxRecordedAfter && addHnRecordedFirst &&
    addRollbackCoversAll && addDocAfterIndexes && addIdsAfterDoc) = true := by decide
theorem gen_update_shape : (updValidateBeforeIndexes && updBtRecordedAfter && updTxRemoveFirst && updOnlyTouched &&
    updRollbackCoversAll && updRollbackSwaps && updRollbackRemovesNewFirst && updPoisonOnFailedRestore &&
    updRollbackOnEveryFailure && updDocAfterIndexes) = true := by decide
theorem gen_remove_shape : (remIndexesBeforeDelete && remDeleteBeforeIds) = true := by decide
theorem gen_btree_shape : (wrapperEqualIsNoop && wrapperInsertBeforeRemove && batchInsertBeforeRemove &&
    insertArrayPrecheck && insertArrayRecheckInEntry && insertCheckInEntry) = true := by decide
theorem gen_recover_order : recoveryOrder = [0, 1, 2] := by decide
theorem gen_replay_two_passes : replayTwoGlobalPasses = true := by decide
theorem gen_recover_shape : (recoverLoadsFirst && replayImagesFirst && replayRemoveBeforeReinsert &&
    replayRegistersAfterReindex && removeDocAllFamilies && reinsertStopsAtFirstRefusal && repairIsBestEffort &&
    scanStartsAboveCheckpoint && openEndsWithFlush && intentsRetiredLast && intentBeforeIndexes) = true := by decide
theorem gen_create_shape : (createBackfillBeforeRegister && createUniqueAtFront && multiFieldIsUnique) = true := by decide

end AndaVerif.Gen.CollOrder
"""
write_gen(gen, "CollOrder.lean", text)
