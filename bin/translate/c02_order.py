#!/usr/bin/env python3
"""C02 / C04: regenerates the *order and bookkeeping shape* of the index maintenance paths that
`Model/Collection.lean` mirrors by hand:

  * add_impl / update_impl / remove_impl: the order of the three index families, whether an index is
    recorded in the rollback set before or after its insert, that the rollback closures mention every
    recorded set, that the document object is written after the index phase and the id bitmap after it;
  * BTree::update (wrapper) = insert(new) then remove(old); BTreeIndex::batch_update = insert_array
    then remove_array; insert_array pre-checks uniqueness before its first mutation;
  * create_btree_index: backfill before registration, unique / multi-field indexes at position 0.

Strict about meaning (a marker that disappears or is ambiguous is an error), tolerant about layout."""
import re, sys
from common import *

repo, gen = sys.argv[1], sys.argv[2]
csrc = strip_rust_comments(read_source(repo, "rs/anda_db/src/collection.rs"))
wsrc = strip_rust_comments(read_source(repo, "rs/anda_db/src/index/btree.rs"))
bsrc = strip_rust_comments(read_source(repo, "rs/anda_db_btree/src/btree.rs"))


def pos(body, pat, what, which=0):
    ms = [m.start() for m in re.finditer(pat, body)]
    if len(ms) <= which:
        die(f"c02_order: marker `{pat}` ({what}) not found")
    return ms[which]


def families(body, fn):
    ps = {"bt": pos(body, r"in\s+&self\s*\.\s*btree_indexes", fn + " btree loop"),
          "tx": pos(body, r"in\s+&self\s*\.\s*bm25_indexes", fn + " bm25 loop"),
          "hn": pos(body, r"in\s+&self\s*\.\s*hnsw_indexes", fn + " hnsw loop")}
    return [k for k, _ in sorted(ps.items(), key=lambda kv: kv[1])]


def closure_body(body, name, fn):
    m = re.search(r"let\s+" + name + r"\s*=\s*\|\|\s*\{", body)
    if not m:
        die(f"c02_order: closure `{name}` not found in {fn}")
    i = m.end() - 1
    depth, j = 0, i
    while j < len(body):
        if body[j] == "{":
            depth += 1
        elif body[j] == "}":
            depth -= 1
            if depth == 0:
                return body[i + 1:j]
        j += 1
    die(f"c02_order: unbalanced closure `{name}` in {fn}")


def fam_num(f):
    return {"bt": 0, "tx": 1, "hn": 2}[f]


add = fn_body(csrc, "add_impl")
upd = fn_body(csrc, "update_impl")
rem = fn_body(csrc, "remove_impl")

add_fams, upd_fams, rem_fams = families(add, "add_impl"), families(upd, "update_impl"), families(rem, "remove_impl")

# add_impl bookkeeping
add_bt_rec_first = pos(add, r"btree_inserted\s*\.\s*insert\(", "add btree record") < pos(add, r"index\s*\.\s*insert\(\s*id\s*,\s*&fv", "add btree insert")
add_tx_rec_after = pos(add, r"index\s*\.\s*insert\(\s*id\s*,\s*&text", "add bm25 insert") < pos(add, r"bm25_inserted\s*\.\s*insert\(", "add bm25 record")
add_hn_rec_first = pos(add, r"hnsw_inserted\s*\.\s*insert\(", "add hnsw record") < pos(add, r"index\s*\.\s*insert\(\s*id\s*,\s*vector", "add hnsw insert")
add_rb = closure_body(add, "rollback_indexes", "add_impl")
add_rb_all = all(re.search(r"\b" + s + r"\b", add_rb) for s in ["btree_inserted", "bm25_inserted", "hnsw_inserted"])
add_rb_removes = len(re.findall(r"\.\s*remove\(", add_rb)) == 3
add_doc_after_index = pos(add, r"in\s+&self\s*\.\s*hnsw_indexes", "add hnsw loop") < pos(add, r"self\s*\.\s*storage\s*\.\s*create\(", "add storage.create")
add_ids_after_doc = pos(add, r"self\s*\.\s*storage\s*\.\s*create\(", "add storage.create") < pos(add, r"self\s*\.\s*doc_ids\s*\.\s*write\(\)\s*\.\s*add\(", "add bitmap")
add_validate_before_alloc = pos(add, r"self\s*\.\s*schema\s*\.\s*validate\(", "add validate") < pos(add, r"max_document_id\s*\.\s*fetch_add\(", "add id allocation")
# rollback is invoked on both failure paths (index phase, storage create)
add_rb_calls = len(re.findall(r"rollback_indexes\(\)", add)) >= 2

# update_impl bookkeeping
upd_bt_rec_after = pos(upd, r"index\s*\.\s*update\(\s*id\s*,\s*&old_value\s*,\s*&new_value", "update btree update") < pos(upd, r"btree_updated\s*\.\s*insert\(", "update btree record")
upd_tx_remove_first = pos(upd, r"index\s*\.\s*remove\(\s*id\s*,\s*&text", "update bm25 remove") < pos(upd, r"index\s*\.\s*insert\(\s*id\s*,\s*&text", "update bm25 insert")
upd_only_touched = bool(re.search(r"fields_keys\s*\.\s*iter\(\)\s*\.\s*any\(\s*\|v\|\s*fields\s*\.\s*contains\(v\)\s*\)", upd)) and bool(re.search(r"fields_keys\s*\.\s*contains\(\s*field_name\s*\)", upd))
upd_rb = closure_body(upd, "rollback_indexes", "update_impl")
upd_rb_all = all(re.search(r"\b" + s + r"\b", upd_rb) for s in ["btree_updated", "bm25_inserted", "bm25_removed", "hnsw_inserted", "hnsw_removed"])
upd_rb_swaps = bool(re.search(r"k\s*\.\s*update\(\s*id\s*,\s*&v\s*\.\s*1\s*,\s*&v\s*\.\s*0", upd_rb))
upd_rb_remove_new_before_reinsert = pos(upd_rb, r"bm25_inserted", "rollback bm25_inserted") < pos(upd_rb, r"bm25_removed", "rollback bm25_removed") and pos(upd_rb, r"hnsw_inserted", "rollback hnsw_inserted") < pos(upd_rb, r"hnsw_removed", "rollback hnsw_removed")
upd_poison_on_failed_restore = bool(re.search(r"if\s*!\s*rollback_indexes\(\)\s*\{[^}]*self\s*\.\s*poison\(", upd, re.S))
upd_doc_after_index = pos(upd, r"in\s+&self\s*\.\s*hnsw_indexes", "update hnsw loop") < pos(upd, r"self\s*\.\s*storage\s*\.\s*put\(", "update storage.put")
upd_validate_before_index = pos(upd, r"self\s*\.\s*schema\s*\.\s*validate\(", "update validate") < pos(upd, r"in\s+&self\s*\.\s*btree_indexes", "update btree loop")

# remove_impl
rem_index_before_delete = pos(rem, r"in\s+&self\s*\.\s*hnsw_indexes", "remove hnsw loop") < pos(rem, r"self\s*\.\s*storage\s*\.\s*delete\(", "remove storage.delete")
rem_delete_before_bitmap = pos(rem, r"self\s*\.\s*storage\s*\.\s*delete\(", "remove storage.delete") < pos(rem, r"doc_ids_index\s*\.\s*remove\(", "remove bitmap")

# wrapper BTree::update: insert(new) then remove(old)
wupd = fn_body(wsrc, "update")
w_insert_first = pos(wupd, r"let\s+rt1\s*=\s*self\s*\.\s*insert\(\s*doc_id\s*,\s*new_value", "BTree::update insert(new)") < pos(wupd, r"let\s+rt2\s*=\s*self\s*\.\s*remove\(\s*doc_id\s*,\s*old_value", "BTree::update remove(old)")
w_equal_noop = pos(wupd, r"self\s*\.\s*values_equal\(", "BTree::update values_equal") < pos(wupd, r"self\s*\.\s*insert\(", "BTree::update first insert")
# BTreeIndex::batch_update: insert_array then remove_array
bupd = fn_body(bsrc, "batch_update")
b_insert_first = pos(bupd, r"self\s*\.\s*insert_array\(", "batch_update insert_array") < pos(bupd, r"self\s*\.\s*remove_array\(", "batch_update remove_array")
# BTreeIndex::insert_array: uniqueness pre-check before the first mutation, re-check inside the entry
iarr = fn_body(bsrc, "insert_array")
ia_precheck = pos(iarr, r"BTreeError::AlreadyExists", "insert_array pre-check") < pos(iarr, r"self\s*\.\s*postings\s*\.\s*entry\(", "insert_array entry")
ia_recheck = len(re.findall(r"BTreeError::AlreadyExists", iarr)) >= 2
ins = fn_body(bsrc, "insert")
i_check_in_entry = pos(ins, r"self\s*\.\s*postings\s*\.\s*entry\(", "insert entry") < pos(ins, r"BTreeError::AlreadyExists", "insert uniqueness check")

# create_btree_index: backfill before registration; unique at the front
cbi = fn_body(csrc, "create_btree_index")
c_backfill_first = pos(cbi, r"self\s*\.\s*backfill_btree_index\(", "create_btree_index backfill") < pos(cbi, r"self\s*\.\s*btree_indexes\s*\.\s*(insert|push)\(", "create_btree_index registration")
c_both_backfill = len(re.findall(r"self\s*\.\s*backfill_btree_index\(", cbi)) == 2
c_unique_front = bool(re.search(r"if\s+field\s*\.\s*unique\(\)\s*\{\s*self\s*\.\s*btree_indexes\s*\.\s*insert\(\s*0\s*,\s*index\s*\)\s*;?\s*\}\s*else\s*\{\s*self\s*\.\s*btree_indexes\s*\.\s*push\(\s*index\s*\)", cbi))
c_multi_front = len(re.findall(r"self\s*\.\s*btree_indexes\s*\.\s*insert\(\s*0\s*,\s*index\s*\)", cbi)) == 2
wvf = fn_body(wsrc, "with_virtual_field")
c_multi_unique = bool(re.search(r"allow_duplicates\s*:\s*false", wvf))


def b(x):
    return "true" if x else "false"


def fl(fs):
    return "[" + ", ".join(str(fam_num(f)) for f in fs) + "]"


text = f"""/- GENERATED by bin/translate/c02_order.py from rs/anda_db/src/collection.rs, rs/anda_db/src/index/btree.rs and
rs/anda_db_btree/src/btree.rs — do not edit. Families: 0 = B-tree, 1 = BM25, 2 = HNSW. -/
namespace AndaVerif.Gen.CollOrder

/-- order in which `add_impl` / `update_impl` / `remove_impl` walk the index families -/
def addFamilies : List Nat := {fl(add_fams)}
def updFamilies : List Nat := {fl(upd_fams)}
def remFamilies : List Nat := {fl(rem_fams)}

/-- add_impl: validation precedes the id allocation (an invalid document consumes no id) -/
def addValidateBeforeAlloc : Bool := {b(add_validate_before_alloc)}
/-- add_impl: `btree_inserted` / `hnsw_inserted` are written before the insert (the failing index is in the
rollback set), `bm25_inserted` after it -/
def addBtRecordedFirst : Bool := {b(add_bt_rec_first)}
def addTxRecordedAfter : Bool := {b(add_tx_rec_after)}
def addHnRecordedFirst : Bool := {b(add_hn_rec_first)}
/-- add_impl: the rollback closure undoes all three recorded sets (three `remove` calls) and is invoked on
both failure paths -/
def addRollbackCoversAll : Bool := {b(add_rb_all and add_rb_removes and add_rb_calls)}
/-- add_impl: document object after the index phase, id bitmap after the document object -/
def addDocAfterIndexes : Bool := {b(add_doc_after_index)}
def addIdsAfterDoc : Bool := {b(add_ids_after_doc)}

/-- update_impl: whole-document validation precedes the index phase -/
def updValidateBeforeIndexes : Bool := {b(upd_validate_before_index)}
/-- update_impl: `btree_updated` is written after a successful `index.update` (a failing update is not
rolled back) -/
def updBtRecordedAfter : Bool := {b(upd_bt_rec_after)}
/-- update_impl: BM25 `remove(old)` precedes `insert(new)` -/
def updTxRemoveFirst : Bool := {b(upd_tx_remove_first)}
/-- update_impl: only indexes whose fields intersect the updated fields are refreshed -/
def updOnlyTouched : Bool := {b(upd_only_touched)}
/-- update_impl: the rollback closure covers all five recorded sets, restores B-trees by `update(new, old)`,
removes the new BM25/HNSW entries before re-inserting the old ones, and a failed restore poisons -/
def updRollbackCoversAll : Bool := {b(upd_rb_all)}
def updRollbackSwaps : Bool := {b(upd_rb_swaps)}
def updRollbackRemovesNewFirst : Bool := {b(upd_rb_remove_new_before_reinsert)}
def updPoisonOnFailedRestore : Bool := {b(upd_poison_on_failed_restore)}
def updDocAfterIndexes : Bool := {b(upd_doc_after_index)}

/-- remove_impl: index entries, then the document object, then the id bitmap -/
def remIndexesBeforeDelete : Bool := {b(rem_index_before_delete)}
def remDeleteBeforeIds : Bool := {b(rem_delete_before_bitmap)}

/-- `BTree::update` (wrapper): `values_equal` short-circuit first; `insert(new)?` before `remove(old)` -/
def wrapperEqualIsNoop : Bool := {b(w_equal_noop)}
def wrapperInsertBeforeRemove : Bool := {b(w_insert_first)}
/-- `BTreeIndex::batch_update`: `insert_array` before `remove_array` -/
def batchInsertBeforeRemove : Bool := {b(b_insert_first)}
/-- `BTreeIndex::insert_array`: uniqueness pre-check before the first mutation and a re-check inside the
posting entry; `BTreeIndex::insert`: the uniqueness check is inside the posting entry -/
def insertArrayPrecheck : Bool := {b(ia_precheck)}
def insertArrayRecheckInEntry : Bool := {b(ia_recheck)}
def insertCheckInEntry : Bool := {b(i_check_in_entry)}

/-- `create_btree_index`: backfill (both the single- and the multi-field path) before registration; a unique
single-field index and every multi-field index go to position 0; a multi-field index never allows duplicates -/
def createBackfillBeforeRegister : Bool := {b(c_backfill_first and c_both_backfill)}
def createUniqueAtFront : Bool := {b(c_unique_front and c_multi_front)}
def multiFieldIsUnique : Bool := {b(c_multi_unique)}

/-- the shape `Model/Collection.lean` (`add`, `update`, `remove`, `phases`, `addBtF`, `addTxF`, `addHnF`,
`updBtF`, `updTxF`, `btUpdate`, `relBatchUpdate`, `relInsertArray`, `createBt`) was written against -/
theorem gen_family_order : addFamilies = [0, 1, 2] ∧ updFamilies = [0, 1, 2] ∧ remFamilies = [0, 1, 2] := by decide
theorem gen_add_shape : (addValidateBeforeAlloc && addBtRecordedFirst && addTxRecordedAfter && addHnRecordedFirst &&
    addRollbackCoversAll && addDocAfterIndexes && addIdsAfterDoc) = true := by decide
theorem gen_update_shape : (updValidateBeforeIndexes && updBtRecordedAfter && updTxRemoveFirst && updOnlyTouched &&
    updRollbackCoversAll && updRollbackSwaps && updRollbackRemovesNewFirst && updPoisonOnFailedRestore &&
    updDocAfterIndexes) = true := by decide
theorem gen_remove_shape : (remIndexesBeforeDelete && remDeleteBeforeIds) = true := by decide
theorem gen_btree_shape : (wrapperEqualIsNoop && wrapperInsertBeforeRemove && batchInsertBeforeRemove &&
    insertArrayPrecheck && insertArrayRecheckInEntry && insertCheckInEntry) = true := by decide
theorem gen_create_shape : (createBackfillBeforeRegister && createUniqueAtFront && multiFieldIsUnique) = true := by decide

end AndaVerif.Gen.CollOrder
"""
write_gen(gen, "CollOrder.lean", text)
