"""Helpers shared by the source-to-Lean translators."""
import re, sys, os


def die(msg):
    print(msg, file=sys.stderr)
    sys.exit(1)


def read_source(repo, rel):
    p = os.path.join(repo, rel)
    if not os.path.exists(p):
        die(f"translator: source file {rel} not found")
    return open(p, encoding="utf-8").read()


def strip_rust_comments(src):
    """Removes // and /* */ comments and blanks string literal contents (keeps length/lines)."""
    out, i, n = [], 0, len(src)
    while i < n:
        c = src[i]
        if src.startswith("//", i):
            while i < n and src[i] != "\n":
                i += 1
        elif src.startswith("/*", i):
            depth = 1
            i += 2
            while i < n and depth:
                if src.startswith("/*", i):
                    depth += 1; i += 2
                elif src.startswith("*/", i):
                    depth -= 1; i += 2
                else:
                    if src[i] == "\n":
                        out.append("\n")
                    i += 1
        elif c == '"':
            out.append('"')
            i += 1
            while i < n and src[i] != '"':
                if src[i] == "\\":
                    i += 1
                if i < n and src[i] == "\n":
                    out.append("\n")
                i += 1
            out.append('"')
            i += 1
        elif c == "'" and i + 2 < n and (src[i + 2] == "'" or (src[i + 1] == "\\" and "'" in src[i + 2:i + 6])):
            # char literal
            j = src.index("'", i + 2 if src[i + 1] != "\\" else i + 3)
            out.append("' '")
            i = j + 1
        else:
            out.append(c)
            i += 1
    return "".join(out)


def fn_body(src, name, which=0):
    """Body (text between the outermost braces) of the `which`-th `fn name` in comment-stripped src."""
    ms = list(re.finditer(r"\bfn\s+" + re.escape(name) + r"\b", src))
    if len(ms) <= which:
        die(f"translator: fn {name} not found")
    i = src.index("{", ms[which].end())
    depth, j = 0, i
    while j < len(src):
        if src[j] == "{":
            depth += 1
        elif src[j] == "}":
            depth -= 1
            if depth == 0:
                return src[i + 1:j]
        j += 1
    die(f"translator: unbalanced braces in fn {name}")


def const_value(src, name):
    ms = re.findall(r"\bconst\s+" + re.escape(name) + r"\s*:\s*[\w:<>& ']+\s*=\s*([^;]+);", src)
    if len(ms) != 1:
        die(f"translator: expected exactly one `const {name}`, found {len(ms)}")
    return ms[0].strip()


def int_const(src, name):
    v = const_value(src, name).replace("_", "")
    try:
        return int(eval(v, {"__builtins__": {}}, {}))
    except Exception:
        die(f"translator: const {name} = {v!r} is not an integer expression")


def write_gen(gen_dir, fname, text):
    os.makedirs(gen_dir, exist_ok=True)
    p = os.path.join(gen_dir, fname)
    old = open(p).read() if os.path.exists(p) else None
    if old != text:
        open(p, "w").write(text)
    print(f"GEN {fname}")


# ---------------------------------------------------------------------------------------------
# Robustness helpers: translators must survive behaviour-preserving refactorings (renamed locals,
# code moved into private helper functions, loops turned into iterator chains, …).
# ---------------------------------------------------------------------------------------------

def all_fn_names(src):
    """names of all `fn` items in comment-stripped src (test modules should be cut off by the caller)"""
    return sorted(set(re.findall(r"\bfn\s+([A-Za-z_][A-Za-z0-9_]*)\b", src)))


def cut_tests(src):
    """comment-stripped src without its trailing `#[cfg(test)] mod tests { … }`"""
    m = re.search(r"#\[cfg\(test\)\]\s*(?:pub\s+)?mod\s+\w+", src)
    return src[:m.start()] if m else src


def try_fn_body(src, name, which=0):
    try:
        return fn_body(src, name, which)
    except SystemExit:
        return None


def inlined_body(src, name, max_depth=5, _stack=()):
    """Body of `fn name` with every call of another function DEFINED IN THE SAME FILE
    (`self.foo(..)`, `Self::foo(..)`, `foo(..)`, also followed by `.await` / `?`) textually replaced by
    `{ /*foo*/ <body of foo, inlined recursively> }`. Marker scans on the result see the same effects in
    the same order whether or not a block was extracted into a private helper. Recursion and depth are
    bounded; a function already on the inlining stack is left as a call."""
    body = try_fn_body(src, name)
    if body is None:
        die(f"translator: fn {name} not found")
    if len(_stack) >= max_depth:
        return body
    names = set(all_fn_names(src)) - {name} - set(_stack)
    out, i = [], 0
    pat = re.compile(r"(?:\bself\s*\.\s*|\bSelf::\s*|(?<![\w.:]))([A-Za-z_][A-Za-z0-9_]*)\s*(?:::<[^>()]*>)?\(")
    while True:
        m = pat.search(body, i)
        if not m:
            out.append(body[i:]); break
        callee = m.group(1)
        if callee not in names or body[max(0, m.start() - 3):m.start()].strip().endswith("fn"):
            out.append(body[i:m.end()]); i = m.end(); continue
        # skip the argument list
        j, depth = m.end(), 1
        while j < len(body) and depth:
            if body[j] in "([{": depth += 1
            elif body[j] in ")]}": depth -= 1
            j += 1
        inner = inlined_body(src, callee, max_depth, _stack + (name,))
        out.append(body[i:m.start()] + "{ /*" + callee + "*/ " + body[m.end():j - 1] + " ; " + inner + " }")
        i = j
    return "".join(out)


def first_pos(text, patterns):
    """index of the first match of any of the regex patterns in text, or -1"""
    best = -1
    for p in patterns if isinstance(patterns, (list, tuple)) else [patterns]:
        m = re.search(p, text)
        if m and (best < 0 or m.start() < best):
            best = m.start()
    return best


def order_of(text, markers):
    """markers: dict name -> regex or list of regexes. Returns the marker names sorted by first occurrence
    in text; dies when a marker is missing (strict about meaning)."""
    pos = {}
    for k, pats in markers.items():
        p = first_pos(text, pats)
        if p < 0:
            die(f"translator: marker `{k}` not found")
        pos[k] = p
    return [k for k, _ in sorted(pos.items(), key=lambda kv: kv[1])]
