"""Helpers shared by the source-to-Lean translators."""
import re, sys, os


def die(msg):
    print(msg, file=sys.stderr)
    sys.exit(1)


def read_source(repo, rel):
    p = os.path.join(repo, rel)
    if not os.path.exists(p):
        die(f"translator: source file {rel} not found")
    return open(p, encoding="utf-8").read()


def strip_rust_comments(src):
    """Removes // and /* */ comments and blanks string literal contents (keeps length/lines)."""
    out, i, n = [], 0, len(src)
    while i < n:
        c = src[i]
        if src.startswith("//", i):
            while i < n and src[i] != "\n":
                i += 1
        elif src.startswith("/*", i):
            depth = 1
            i += 2
            while i < n and depth:
                if src.startswith("/*", i):
                    depth += 1; i += 2
                elif src.startswith("*/", i):
                    depth -= 1; i += 2
                else:
                    if src[i] == "\n":
                        out.append("\n")
                    i += 1
        elif c == '"':
            out.append('"')
            i += 1
            while i < n and src[i] != '"':
                if src[i] == "\\":
                    i += 1
                if i < n and src[i] == "\n":
                    out.append("\n")
                i += 1
            out.append('"')
            i += 1
        elif c == "'" and i + 2 < n and (src[i + 2] == "'" or (src[i + 1] == "\\" and "'" in src[i + 2:i + 6])):
            # char literal
            j = src.index("'", i + 2 if src[i + 1] != "\\" else i + 3)
            out.append("' '")
            i = j + 1
        else:
            out.append(c)
            i += 1
    return "".join(out)


def fn_body(src, name, which=0):
    """Body (text between the outermost braces) of the `which`-th `fn name` in comment-stripped src."""
    ms = list(re.finditer(r"\bfn\s+" + re.escape(name) + r"\b", src))
    if len(ms) <= which:
        die(f"translator: fn {name} not found")
    i = src.index("{", ms[which].end())
    depth, j = 0, i
    while j < len(src):
        if src[j] == "{":
            depth += 1
        elif src[j] == "}":
            depth -= 1
            if depth == 0:
                return src[i + 1:j]
        j += 1
    die(f"translator: unbalanced braces in fn {name}")


def const_value(src, name):
    ms = re.findall(r"\bconst\s+" + re.escape(name) + r"\s*:\s*[\w:<>& ']+\s*=\s*([^;]+);", src)
    if len(ms) != 1:
        die(f"translator: expected exactly one `const {name}`, found {len(ms)}")
    return ms[0].strip()


def int_const(src, name):
    v = const_value(src, name).replace("_", "")
    try:
        return int(eval(v, {"__builtins__": {}}, {}))
    except Exception:
        die(f"translator: const {name} = {v!r} is not an integer expression")


def write_gen(gen_dir, fname, text):
    os.makedirs(gen_dir, exist_ok=True)
    p = os.path.join(gen_dir, fname)
    old = open(p).read() if os.path.exists(p) else None
    if old != text:
        open(p, "w").write(text)
    print(f"GEN {fname}")
