#!/usr/bin/env python3
"""c07_sidecar_order.py <repo_root> <gen_dir>  ->  <gen_dir>/SidecarOrder.lean, SidecarOrderFacts.lean   (C07, C08)

Regenerates, from rs/anda_object_store/src/{sidecar,lib,encryption}.rs, the order-like parts of the
wrapper model:

  * `update_meta_with`: fresh read -> closure `f` -> metadata put (pointer) -> best-effort reclaim
  * per wrapper (MetaStore / EncryptedStore) and per operation (put_opts, multipart complete,
    copy_opts): where the payload write sits relative to the pointer switch and the reclaim
    -> `putOrder`, `completeOrder`, `copyOrder : Wrapper -> List CommitPhase`
  * `delete_object`: commit point vs payload                         -> `deleteOrder`
  * `rename_opts`: copy vs delete of the source                      -> `renameOrder`
  * `collect_garbage`: mark listing before sweep listing, and per candidate
    in-flight check / re-read of the commit point / delete           -> `gcMarkFirst`, `gcCandidateOrder`;
    re-read per candidate or memoised per key                        -> `gcRecheckPerCandidate`
  * the in-flight registration: before the payload write, and bound to a named guard that lives to
    the end of the call (not `let _ =`)                              -> `trackBeforePayload`, `guardHeld`
  * the e_tag recipes: is the per-commit seed (generation / base nonce) hashed in?
                                                                     -> `putTagSeeded`, `completeTagSeeded`, `copyTagSeeded`
  * `get_opts`: preconditions evaluated inside the stale-pointer retry loop            -> `getRecheckInRetry`

Works on a comment-stripped copy and keys on call names and nesting, not on layout. A marker that is
missing or ambiguous is an error (exit 1 with a one-line reason), never a default.
"""
import os
import re
import sys

sys.path.insert(0, os.path.dirname(os.path.abspath(__file__)))
from common import strip_rust_comments, write_gen  # noqa: E402


def die(msg):
    print(f"c07_sidecar_order: {msg}", file=sys.stderr)
    sys.exit(1)


def read(repo, rel):
    p = os.path.join(repo, rel)
    if not os.path.exists(p):
        die(f"source file {rel} not found")
    return strip_rust_comments(open(p, encoding="utf-8").read())


def match_close(src, i, open_c="{", close_c="}"):
    assert src[i] == open_c
    depth = 0
    for j in range(i, len(src)):
        if src[j] == open_c:
            depth += 1
        elif src[j] == close_c:
            depth -= 1
            if depth == 0:
                return j
    die("unbalanced braces")


def block_after(src, header_re, what):
    ms = list(re.finditer(header_re, src))
    if len(ms) != 1:
        die(f"expected exactly one `{what}`, found {len(ms)}")
    i = src.index("{", ms[0].end() - 1)
    return src[i + 1:match_close(src, i)]


def fn_in(block, name, what):
    ms = list(re.finditer(r"\bfn\s+" + re.escape(name) + r"\b", block))
    if len(ms) != 1:
        die(f"expected exactly one `fn {name}` in {what}, found {len(ms)}")
    # skip the signature: the body starts at the first '{' after the closing ')' of the parameter
    # list and an optional return type / where clause
    i = block.index("(", ms[0].end())
    j = match_close(block, i, "(", ")")
    k = block.index("{", j)
    return block[k + 1:match_close(block, k)]


def pos(body, pattern, what, first=True, required=True):
    ms = list(re.finditer(pattern, body))
    if not ms:
        if required:
            die(f"marker `{what}` not found")
        return None
    return ms[0].start() if first else ms[-1].start()


def all_pos(body, pattern):
    return [m.start() for m in re.finditer(pattern, body)]


def closure_of_call(body, call_re, what):
    """The text of the closure argument `async |..| { ... }` of the (single) call matched by call_re,
    together with (start, end) of the whole call expression."""
    ms = list(re.finditer(call_re, body))
    if len(ms) != 1:
        die(f"expected exactly one call `{what}`, found {len(ms)}")
    i = body.index("(", ms[0].end() - 1)
    j = match_close(body, i, "(", ")")
    args = body[i + 1:j]
    m = re.search(r"async\s*(?:move\s*)?\|[^|]*\|\s*\{", args)
    if not m:
        die(f"call `{what}` has no async closure argument")
    k = args.index("{", m.start())
    return args[k + 1:match_close(args, k)], ms[0].start(), j


def order_names(pairs, what):
    """pairs: list of (name, position); positions must be distinct"""
    ps = [p for _, p in pairs]
    if len(set(ps)) != len(ps):
        die(f"ambiguous order in {what}")
    return [n for n, _ in sorted(pairs, key=lambda x: x[1])]


def commit_order(fn_body, payload_re, payload_what, what, payload_in_closure=True, payload_before_call_re=None):
    """Order of payload / pointer / reclaim for a function that commits through update_meta_with.
    Positions are taken on a virtual time line: everything textually before the update_meta_with call
    is at time 0..; the closure body runs at update_meta_with's `f(` position; pointer and reclaim
    follow in update_meta_with's own order (UM)."""
    closure, call_start, call_end = closure_of_call(fn_body, r"\bupdate_meta_with\s*\(", f"update_meta_with in {what}")
    outside_before = fn_body[:call_start]
    outside_after = fn_body[call_end:]
    in_closure = re.search(payload_re, closure) is not None
    before = re.search(payload_before_call_re or payload_re, outside_before) is not None
    after = re.search(payload_re, outside_after) is not None
    if sum([in_closure, before, after]) != 1:
        die(f"payload write `{payload_what}` of {what}: expected exactly one site (closure/before/after), found closure={in_closure} before={before} after={after}")
    line = []
    if before:
        line.append("payload")
    for ph in UM:  # UM is the order inside update_meta_with: subset of callF, pointer, reclaim
        if ph == "callF":
            if in_closure:
                line.append("payload")
        else:
            line.append(ph)
    if after:
        line.append("payload")
    return line


def lean_list(xs, prefix="."):
    return "[" + ", ".join(prefix + x for x in xs) + "]"


def lean_bool(b):
    return "true" if b else "false"


def main():
    if len(sys.argv) != 3:
        die("usage: c07_sidecar_order.py <repo_root> <gen_dir>")
    repo, gen_dir = sys.argv[1], sys.argv[2]
    sidecar = read(repo, "rs/anda_object_store/src/sidecar.rs")
    lib = read(repo, "rs/anda_object_store/src/lib.rs")
    enc = read(repo, "rs/anda_object_store/src/encryption.rs")

    side_impl = block_after(sidecar, r"impl\s*<\s*T\s*:\s*ObjectStore\s*,\s*M\s*:\s*SidecarMeta\s*>\s*SidecarStore\s*<\s*T\s*,\s*M\s*>\s*\{", "impl SidecarStore")

    # ---- update_meta_with ------------------------------------------------------------------
    um = fn_in(side_impl, "update_meta_with", "impl SidecarStore")
    read_p = pos(um, r"\bfetch_meta_bytes\s*\(", "fetch_meta_bytes in update_meta_with")
    f_ps = all_pos(um, r"\bf\s*\(\s*(?:Some|None)")
    if not f_ps:
        die("update_meta_with never calls its closure `f(Some(..))` / `f(None)`")
    ptr_ms = [m for m in re.finditer(r"\.put_opts\s*\(\s*&\s*meta_path\b", um)]
    if len(ptr_ms) != 1:
        die(f"update_meta_with: expected exactly one `.put_opts(&meta_path, ..)`, found {len(ptr_ms)}")
    ptr_p = ptr_ms[0].start()
    rec_p = pos(um, r"\bbest_effort_delete\s*\(", "best_effort_delete in update_meta_with")
    if not (all(p < ptr_p for p in f_ps) or all(p > ptr_p for p in f_ps)):
        die("update_meta_with: closure calls on both sides of the metadata put")
    if not read_p < min(f_ps):
        die("update_meta_with: the fresh metadata read no longer precedes the closure")
    global UM
    UM = order_names([("callF", f_ps[0]), ("pointer", ptr_p), ("reclaim", rec_p)], "update_meta_with")
    # the reclaimed path must be guarded by the `old != new payload path` comparison
    if not re.search(r"old\s*!=\s*self\s*\.\s*payload_path\s*\(", um):
        die("update_meta_with: the `old != payload_path(new)` guard before the reclaim is gone")

    # ---- delete_object ---------------------------------------------------------------------
    do = fn_in(side_impl, "delete_object", "impl SidecarStore")
    dptr = pos(do, r"\.delete\s*\(\s*&\s*self\s*\.\s*meta_path\s*\(", "delete(&self.meta_path(..)) in delete_object")
    dpay = pos(do, r"\bbest_effort_delete\s*\(", "best_effort_delete in delete_object")
    delete_order = order_names([("pointer", dptr), ("payload", dpay)], "delete_object")

    # ---- copy_payload ----------------------------------------------------------------------
    cp = fn_in(side_impl, "copy_payload", "impl SidecarStore")
    cp_track = pos(cp, r"\btrack_in_flight\s*\(", "track_in_flight in copy_payload")
    cp_copy = pos(cp, r"\.copy_opts\s*\(", "store.copy_opts in copy_payload")
    cp_gen = pos(cp, r"\bnew_generation\s*\(", "new_generation in copy_payload")
    copy_track_first = cp_gen < cp_track < cp_copy

    # ---- collect_garbage -------------------------------------------------------------------
    gc = fn_in(side_impl, "collect_garbage", "impl SidecarStore")
    mark = pos(gc, r"\.list\s*\(\s*Some\s*\(\s*&\s*self\s*\.\s*meta_prefix", "list(meta_prefix) in collect_garbage")
    sweep = pos(gc, r"\.list\s*\(\s*Some\s*\(\s*&\s*self\s*\.\s*gen_prefix", "list(gen_prefix) in collect_garbage")
    floor = pos(gc, r"\bfloor_ms\b", "floor_ms in collect_garbage")
    # the per-candidate loop: `for (..) in candidates { in-flight check; re-read; delete }`
    lm = list(re.finditer(r"\bfor\s*\([^)]*\)\s*in\s+candidates\s*\{", gc))
    if len(lm) != 1:
        die(f"collect_garbage: expected exactly one `for (..) in candidates` loop, found {len(lm)}")
    lb = gc.index("{", lm[0].end() - 1)
    loop = gc[lb + 1:match_close(gc, lb)]
    loop_off = lb + 1
    RECHECK = r"\b(is_referenced\w*|fetch_meta_bytes|load_meta|\w*referenc\w*)\s*\("
    g_if = loop_off + pos(loop, r"\bis_in_flight\s*\(", "is_in_flight in the candidate loop of collect_garbage")
    rm = re.search(RECHECK, loop)
    if not rm:
        die("collect_garbage: no re-read of the commit point (is_referenced / fetch_meta_bytes) in the candidate loop")
    g_re = loop_off + rm.start()
    g_del = loop_off + pos(loop, r"\.delete\s*\(\s*&\s*full_path", "delete(&full_path) in the candidate loop of collect_garbage")
    gc_candidate = order_names([("inFlight", g_if), ("recheck", g_re), ("delete", g_del)], "collect_garbage candidate loop")
    # is the commit point re-read for every candidate, or once per key (answer remembered in a map
    # keyed by the location and consulted before the backend read)?
    LOOKUP = r"\.\s*(get|get_mut|entry|contains_key|get_or_insert_with)\s*\(\s*&?\s*\(?\s*location\b"
    depth = loop[:rm.start()].count("{") - loop[:rm.start()].count("}")
    isref = fn_in(side_impl, "is_referenced", "impl SidecarStore") if re.search(r"\bfn\s+is_referenced\b", side_impl) else ""
    isref_fetch = re.search(r"\bfetch_meta_bytes\s*\(|\bload_meta\s*\(", isref)
    memo_in_helper = bool(isref) and bool(isref_fetch) and re.search(LOOKUP, isref[:isref_fetch.start()]) is not None
    memo_in_loop = re.search(LOOKUP, loop) is not None
    if depth == 0 and not memo_in_loop and not memo_in_helper:
        if rm.group(1).startswith("is_referenced") and not isref_fetch:
            die("is_referenced no longer reads the commit point from the backend (fetch_meta_bytes / load_meta)")
        gc_recheck_per_candidate = True
    elif memo_in_loop or memo_in_helper:
        gc_recheck_per_candidate = False
    else:
        die("collect_garbage: cannot tell whether the commit point is re-read per candidate or per key (re-read is nested but no lookup keyed by `location` found)")
    gc_mark_first = floor < mark < sweep < min(g_if, g_re, g_del)
    gc_floor_skip = re.search(r"\bts\s*>=\s*floor_ms\b", gc) is not None

    # ---- wrappers --------------------------------------------------------------------------
    wrappers = {}
    for name, src, impl_re, up_re in (
        ("metaStore", lib, r"impl\s*<\s*T\s*:\s*ObjectStore\s*>\s*ObjectStore\s+for\s+MetaStore\s*<\s*T\s*>\s*\{",
         r"impl\s*<\s*T\s*:\s*ObjectStore\s*>\s*MultipartUpload\s+for\s+MetaStoreUploader\s*<\s*T\s*>\s*\{"),
        ("encrypted", enc, r"impl\s*<\s*T\s*:\s*ObjectStore\s*>\s*ObjectStore\s+for\s+EncryptedStore\s*<\s*T\s*>\s*\{",
         r"impl\s*<\s*T\s*:\s*ObjectStore\s*>\s*MultipartUpload\s+for\s+EncryptedStoreUploader\s*<\s*T\s*>\s*\{"),
    ):
        impl = block_after(src, impl_re, f"impl ObjectStore for {name}")
        up = block_after(src, up_re, f"impl MultipartUpload for {name} uploader")
        put = fn_in(impl, "put_opts", f"impl ObjectStore for {name}")
        put_order = commit_order(put, r"\.put_opts\s*\(\s*&\s*gen_path\b", "store.put_opts(&gen_path, ..)", f"{name}::put_opts")
        # in-flight registration: minted + registered before update_meta_with, bound to a named guard
        t = re.search(r"let\s+(\w+)\s*=\s*self\s*\.\s*inner\s*\.\s*track_in_flight\s*\(", put)
        if not t:
            die(f"{name}::put_opts: `let <guard> = self.inner.track_in_flight(..)` not found")
        um_call = pos(put, r"\bupdate_meta_with\s*\(", f"update_meta_with in {name}::put_opts")
        gen_p = pos(put, r"\bnew_generation\s*\(", f"new_generation in {name}::put_opts")
        track_first = gen_p < t.start() < um_call
        guard_held = t.group(1) != "_" and re.search(r"\bdrop\s*\(\s*" + re.escape(t.group(1)) + r"\s*\)", put) is None
        # multipart
        comp = fn_in(up, "complete", f"impl MultipartUpload for {name} uploader")
        complete_order = commit_order(comp, r"\binner\s*\.\s*complete\s*\(", "inner.complete()", f"{name} uploader complete")
        mp = fn_in(impl, "put_multipart_opts", f"impl ObjectStore for {name}")
        mt = re.search(r"let\s+(\w+)\s*=\s*self\s*\.\s*inner\s*\.\s*track_in_flight\s*\(", mp)
        mp_open = pos(mp, r"\.put_multipart_opts\s*\(", f"store.put_multipart_opts in {name}::put_multipart_opts")
        if not mt:
            die(f"{name}::put_multipart_opts: in-flight registration not found")
        mp_track_first = mt.start() < mp_open and re.search(r"\b_in_flight\s*:\s*" + re.escape(mt.group(1)) + r"\b|\b_in_flight\s*,", mp) is not None
        # copy
        cpy = fn_in(impl, "copy_opts", f"impl ObjectStore for {name}")
        copy_order = commit_order(cpy, r"\bcopy_payload\s*\(", "copy_payload(..)", f"{name}::copy_opts")
        cg = re.search(r"let\s*\(\s*\w+\s*,\s*\w+\s*,\s*(\w+)\s*\)\s*=\s*self\s*\.\s*inner\s*\.\s*copy_payload", cpy)
        if not cg:
            die(f"{name}::copy_opts: `let (src, generation, <guard>) = self.inner.copy_payload(..)` not found")
        copy_guard_held = cg.group(1) != "_"
        # rename
        ren = fn_in(impl, "rename_opts", f"impl ObjectStore for {name}")
        r_copy = pos(ren, r"\bself\s*\.\s*copy_opts\s*\(", f"self.copy_opts in {name}::rename_opts")
        r_del = pos(ren, r"\bdelete_object\s*\(", f"delete_object in {name}::rename_opts")
        rename_order = order_names([("copy", r_copy), ("deleteSource", r_del)], f"{name}::rename_opts")
        self_rename = re.search(r"if\s+from\s*==\s*to\b", ren) is not None and pos(ren, r"if\s+from\s*==\s*to\b", "x") < r_copy
        # get_opts: are the read preconditions evaluated inside the stale-pointer retry loop, on the
        # document resolved in that iteration (get_meta / check_get_preconditions per iteration,
        # refresh_meta's answer not carried over)?
        getf = fn_in(impl, "get_opts", f"impl ObjectStore for {name}")
        glm = re.search(r"\bloop\s*\{", getf)
        if not glm:
            die(f"{name}::get_opts: the retry `loop` is gone")
        glb = getf.index("{", glm.end() - 1)
        gloop = getf[glb + 1:match_close(getf, glb)]
        gbefore = getf[:glb]
        if not re.search(r"\brefresh_meta\s*\(", gloop):
            die(f"{name}::get_opts: no refresh_meta in the retry loop (stale-pointer retry gone)")
        chk = re.search(r"\bcheck_get_preconditions\s*\(", gloop)
        chk_before = re.search(r"\bcheck_get_preconditions\s*\(", gbefore)
        if not chk and not chk_before:
            die(f"{name}::get_opts: check_get_preconditions is not called")
        chk_depth = (gloop[:chk.start()].count("{") - gloop[:chk.start()].count("}")) if chk else -1
        meta_in_loop = re.search(r"\bget_meta\s*\(", gloop) is not None
        refresh_bound = re.search(r"=\s*self\s*\.\s*inner\s*\.\s*refresh_meta\s*\(", gloop) is not None
        get_recheck = bool(chk) and chk_depth == 0 and meta_in_loop and not chk_before and not refresh_bound
        # e_tag recipes
        if name == "metaStore":
            put_seeded = re.search(r"hasher\s*\.\s*update\s*\(\s*generation\s*\.\s*as_bytes\s*\(\s*\)\s*\)", put) is not None
            mp_seeded = re.search(r"hasher\s*\.\s*update\s*\(\s*generation\s*\.\s*as_bytes\s*\(\s*\)\s*\)", mp) is not None
        else:
            put_seeded = re.search(r"hasher\s*\.\s*update\s*\(\s*base_nonce\s*\)", put) is not None and re.search(r"base_nonce\s*:\s*\[u8;\s*12\]\s*=\s*rand_bytes\s*\(", put) is not None
            mp_seeded = re.search(r"hasher\s*\.\s*update\s*\(\s*aes_nonce\s*\)", mp) is not None and re.search(r"aes_nonce\s*:\s*\[u8;\s*12\]\s*=\s*rand_bytes\s*\(", mp) is not None
        copy_uses_derive = re.search(r"derive_copy_e_tag\s*\(\s*&\s*generation\b", cpy) is not None
        wrappers[name] = dict(put=put_order, complete=complete_order, copy=copy_order, rename=rename_order,
                              track=track_first and mp_track_first and copy_track_first,
                              held=guard_held and copy_guard_held, put_seeded=put_seeded, mp_seeded=mp_seeded,
                              copy_derive=copy_uses_derive, self_rename=self_rename, get_recheck=get_recheck)

    # derive_copy_e_tag
    dce = fn_in(lib, "derive_copy_e_tag", "lib.rs")
    dce_gen = pos(dce, r"hasher\s*\.\s*update\s*\(\s*generation\s*\.\s*as_bytes", "generation in derive_copy_e_tag", required=False)
    copy_seeded = dce_gen is not None and all(w["copy_derive"] for w in wrappers.values())

    def per_wrapper(field, f):
        return "\n".join(f"  | .{n} => {f(wrappers[n][field])}" for n in ("metaStore", "encrypted"))

    std = ["payload", "pointer", "reclaim"]
    text = f"""/-
GENERATED by bin/translate/c07_sidecar_order.py from rs/anda_object_store/src/{{sidecar,lib,encryption}}.rs.
Do not edit: regenerated on every check.
-/
namespace AndaVerif.Gen.SidecarOrder

inductive Wrapper where
  | metaStore | encrypted
  deriving DecidableEq, Repr

inductive CommitPhase where
  | payload | pointer | reclaim
  deriving DecidableEq, Repr

inductive DeletePhase where
  | pointer | payload
  deriving DecidableEq, Repr

inductive RenamePhase where
  | copy | deleteSource
  deriving DecidableEq, Repr

inductive GcCheck where
  | inFlight | recheck | delete
  deriving DecidableEq, Repr

/-- `put_opts`: payload write / metadata put / best-effort reclaim, in execution order -/
def putOrder : Wrapper → List CommitPhase
{per_wrapper("put", lean_list)}

/-- multipart `complete` -/
def completeOrder : Wrapper → List CommitPhase
{per_wrapper("complete", lean_list)}

/-- `copy_opts` (`copy_payload`, then the pointer commit) -/
def copyOrder : Wrapper → List CommitPhase
{per_wrapper("copy", lean_list)}

/-- `delete_object` -/
def deleteOrder : List DeletePhase := {lean_list(delete_order)}

/-- `rename_opts` for `from != to` -/
def renameOrder : Wrapper → List RenamePhase
{per_wrapper("rename", lean_list)}

/-- `rename_opts` handles `from == to` before anything else -/
def selfRenameGuard : Wrapper → Bool
{per_wrapper("self_rename", lean_bool)}

/-- `collect_garbage`: floor timestamp, then the mark listing, then the sweep listing, then deletions -/
def gcMarkFirst : Bool := {lean_bool(gc_mark_first)}

/-- generations minted at or after the start of the collection are skipped (`ts >= floor_ms`) -/
def gcFloorSkip : Bool := {lean_bool(gc_floor_skip)}

/-- per candidate: in-flight check, re-read of the commit point, delete -/
def gcCandidateOrder : List GcCheck := {lean_list(gc_candidate)}

/-- `get_opts`: every iteration of the stale-pointer retry loop resolves the document (`get_meta`) and
evaluates `check_get_preconditions` on it — a retried read re-checks the caller's conditions
against the re-resolved commit -/
def getRecheckInRetry : Wrapper → Bool
{per_wrapper("get_recheck", lean_bool)}

/-- the commit point is re-read from the backend for every candidate (`true`), or once per key with the
answer reused for the key's later candidates (`false`) -/
def gcRecheckPerCandidate : Bool := {lean_bool(gc_recheck_per_candidate)}

/-- the generation is minted and registered as in-flight before the payload reaches the backend
(put, multipart, copy) -/
def trackBeforePayload : Wrapper → Bool
{per_wrapper("track", lean_bool)}

/-- the registration is bound to a named guard that lives until the call returns -/
def guardHeld : Wrapper → Bool
{per_wrapper("held", lean_bool)}

/-- the logical e_tag of a put hashes the per-commit seed (generation / base nonce) -/
def putTagSeeded : Wrapper → Bool
{per_wrapper("put_seeded", lean_bool)}

/-- the same for a multipart upload -/
def completeTagSeeded : Wrapper → Bool
{per_wrapper("mp_seeded", lean_bool)}

/-- `derive_copy_e_tag` hashes the fresh generation, and both `copy_opts` use it -/
def copyTagSeeded : Bool := {lean_bool(copy_seeded)}

end AndaVerif.Gen.SidecarOrder
"""
    facts = f"""import AndaVerif.Gen.SidecarOrder
/-
GENERATED by bin/translate/c07_sidecar_order.py: the values of `Gen/SidecarOrder.lean` the proofs of
C07 / C08 were written against, re-checked by the kernel on every run. (Kept apart from the data so
that the model and its driver still build, and follow the source, when an order changes.)
-/
namespace AndaVerif.Gen.SidecarOrder

theorem gen_put_order : ∀ w, putOrder w = {lean_list(std)} := by intro w; cases w <;> decide
theorem gen_complete_order : ∀ w, completeOrder w = {lean_list(std)} := by intro w; cases w <;> decide
theorem gen_copy_order : ∀ w, copyOrder w = {lean_list(std)} := by intro w; cases w <;> decide
theorem gen_delete_order : deleteOrder = [.pointer, .payload] := by decide
theorem gen_rename_order : ∀ w, renameOrder w = [.copy, .deleteSource] := by intro w; cases w <;> decide
theorem gen_self_rename_guard : ∀ w, selfRenameGuard w = true := by intro w; cases w <;> decide
theorem gen_gc_mark_first : gcMarkFirst = true := by decide
theorem gen_gc_floor_skip : gcFloorSkip = true := by decide
theorem gen_gc_candidate_order : gcCandidateOrder = [.inFlight, .recheck, .delete] := by decide
theorem gen_get_recheck_in_retry : ∀ w, getRecheckInRetry w = true := by intro w; cases w <;> decide
theorem gen_gc_recheck_per_candidate : gcRecheckPerCandidate = true := by decide
theorem gen_track_before_payload : ∀ w, trackBeforePayload w = true := by intro w; cases w <;> decide
theorem gen_guard_held : ∀ w, guardHeld w = true := by intro w; cases w <;> decide
theorem gen_put_tag_seeded : ∀ w, putTagSeeded w = true := by intro w; cases w <;> decide
theorem gen_complete_tag_seeded : ∀ w, completeTagSeeded w = true := by intro w; cases w <;> decide
theorem gen_copy_tag_seeded : copyTagSeeded = true := by decide

end AndaVerif.Gen.SidecarOrder
"""
    write_gen(gen_dir, "SidecarOrder.lean", text)
    write_gen(gen_dir, "SidecarOrderFacts.lean", facts)


if __name__ == "__main__":
    main()
