#!/usr/bin/env python3
"""c07_sidecar_order.py <repo_root> <gen_dir>  ->  <gen_dir>/SidecarOrder.lean, SidecarOrderFacts.lean   (C07, C08)

Regenerates, from rs/anda_object_store/src/{sidecar,lib,encryption}.rs, the order-like parts of the
wrapper model:

  * `update_meta_with`: fresh read -> the caller's closure -> metadata put (pointer) -> best-effort reclaim
  * per wrapper (MetaStore / EncryptedStore) and per operation (put_opts, multipart complete,
    copy_opts): where the payload write sits relative to the pointer switch and the reclaim
    -> `putOrder`, `completeOrder`, `copyOrder : Wrapper -> List CommitPhase`
  * `delete_object`: commit point vs payload                         -> `deleteOrder`
  * `rename_opts`: copy vs delete of the source                      -> `renameOrder`
  * `collect_garbage`: mark listing before sweep listing, and per candidate
    in-flight check / re-read of the commit point / delete           -> `gcMarkFirst`, `gcCandidateOrder`;
    re-read per candidate or memoised per key                        -> `gcRecheckPerCandidate`
  * the in-flight registration: before the payload write, and bound to a named guard that lives to
    the end of the call (not `let _ =`)                              -> `trackBeforePayload`, `guardHeld`
  * the e_tag recipes: is the per-commit seed (generation / random nonce) hashed in?
                                                                     -> `putTagSeeded`, `completeTagSeeded`, `copyTagSeeded`
  * `put_opts`: no successful exit of the commit closure before the payload write (every put that
    succeeds mints a commit)                                         -> `putFreshCommit`
  * `get_opts`: preconditions evaluated inside the stale-pointer retry loop            -> `getRecheckInRetry`

How the source is read (robust against behaviour-preserving rewrites, strict about meaning):

  * comments are stripped, string contents blanked, the trailing test module is cut;
  * a function is found by its NAME in its file (exactly one definition), not by its impl header;
  * calls of functions defined in the same file (`self.f(..)`, `Self::f(..)`, `f(..)`), and of free
    functions of the sibling files, are expanded in place: the call text stays, the callee's body
    follows it between the marks U+27E6 / U+27E7 with its parameters renamed apart and bound to the
    arguments (`let p__3 = <arg>;`). A marker scan therefore sees the same effects in the same order
    whether or not a block was extracted into a private helper. Functions that read the metadata
    cache (`meta_cache.get(..)`: get_meta, listing_entry) are never expanded: a read through them is
    not a backend read;
  * markers are names of what is CALLED (methods, functions, fields), their nesting and their
    first-occurrence order. Names of locals, closure parameters and loop variables are never
    matched literally; where a value has to be followed (the generation into the hasher, the
    closure parameter to its call, a path local to the function that made it) this is done through
    the `let` bindings of the text;
  * a marker that is missing or ambiguous is an error (exit 1 with a one-line reason), never a default.
"""
import os
import re
import sys

sys.path.insert(0, os.path.dirname(os.path.abspath(__file__)))
from common import strip_rust_comments, cut_tests, write_gen  # noqa: E402

L, R = "⟦", "⟧"     # delimit an expanded callee body; transparent for brace depth


def die(msg):
    print(f"c07_sidecar_order: {msg}", file=sys.stderr)
    sys.exit(1)


# ------------------------------------------------------------------------------------------------
# lexical helpers
# ------------------------------------------------------------------------------------------------

OPEN, CLOSE = "([{" + L, ")]}" + R


def match_close(src, i):
    """index of the bracket closing the one at src[i] (any of ( [ { or the expansion mark)"""
    o = src[i]
    c = CLOSE[OPEN.index(o)]
    depth = 0
    for j in range(i, len(src)):
        if src[j] == o:
            depth += 1
        elif src[j] == c:
            depth -= 1
            if depth == 0:
                return j
    die("unbalanced brackets")


def split_top(text, sep=","):
    """split at top-level separators; brackets ( [ { and the expansion marks nest; the parameter
    list `|a, b|` of a closure is kept together"""
    out, depth, cur, i, n = [], 0, [], 0, len(text)
    at_start = True
    while i < n:
        ch = text[i]
        if at_start and depth == 0:
            m = re.match(r"\s*(?:async\s+)?(?:move\s+)?\|", text[i:])
            if m:
                j = text.find("|", i + m.end())
                if j < 0:
                    j = n - 1
                cur.append(text[i:j + 1])
                i = j + 1
                at_start = False
                continue
        if not ch.isspace():
            at_start = False
        if ch in OPEN:
            depth += 1
        elif ch in CLOSE:
            depth -= 1
        if ch == sep and depth == 0:
            out.append("".join(cur))
            cur = []
            at_start = True
        else:
            cur.append(ch)
        i += 1
    if "".join(cur).strip():
        out.append("".join(cur))
    return out


def split_params(text):
    """split a parameter list at top-level commas (angle brackets of types nest as well)"""
    out, depth, cur, i, n = [], 0, [], 0, len(text)
    while i < n:
        ch = text[i]
        if text.startswith("->", i):
            cur.append("->")
            i += 2
            continue
        if ch in "([{<":
            depth += 1
        elif ch in ")]}>":
            depth -= 1
        if ch == "," and depth == 0:
            out.append("".join(cur))
            cur = []
        else:
            cur.append(ch)
        i += 1
    if "".join(cur).strip():
        out.append("".join(cur))
    return out


def brace_depth(text):
    """net depth of `{`; the expansion marks do not count"""
    return text.count("{") - text.count("}")


# ------------------------------------------------------------------------------------------------
# source files, function table, call expansion
# ------------------------------------------------------------------------------------------------

class Fn:
    def __init__(self, name, sig, params, is_method, body):
        self.name, self.sig, self.params, self.is_method, self.body = name, sig, params, is_method, body


class File:
    def __init__(self, key, text):
        self.key, self.text, self.fns = key, text, {}
        for m in re.finditer(r"\bfn\s+([A-Za-z_]\w*)", text):
            i = m.end()
            while i < len(text) and text[i].isspace():
                i += 1
            if i < len(text) and text[i] == "<":            # generics
                depth = 0
                while i < len(text):
                    if text.startswith("->", i):
                        i += 2
                        continue
                    if text[i] == "<":
                        depth += 1
                    elif text[i] == ">":
                        depth -= 1
                        if depth == 0:
                            i += 1
                            break
                    i += 1
                while i < len(text) and text[i].isspace():
                    i += 1
            if i >= len(text) or text[i] != "(":
                continue
            k = match_close(text, i)
            j = k + 1
            while j < len(text) and text[j] not in "{;":
                j += 1
            if j >= len(text) or text[j] == ";":
                continue                                    # declaration without body
            body = text[j + 1:match_close(text, j)]
            params, is_method = [], False
            for piece in split_params(text[i + 1:k]):
                piece = piece.strip()
                if re.fullmatch(r"&?\s*(?:'\w+\s+)?(?:mut\s+)?self(?:\s*:.*)?", piece, re.S):
                    is_method = True
                    continue
                pm = re.match(r"(?:mut\s+)?([a-z_]\w*)\s*:\s*(.*)$", piece, re.S)
                params.append((pm.group(1), pm.group(2).strip()) if pm else (None, piece))
            self.fns.setdefault(m.group(1), []).append(Fn(m.group(1), text[m.start():j], params, is_method, body))

    def fn(self, name):
        fs = self.fns.get(name, [])
        if len(fs) != 1:
            die(f"expected exactly one `fn {name}` in {self.key}.rs, found {len(fs)}")
        return fs[0]


FILES = {}
_counter = [0]
CALL = re.compile(r"(?:(\bself\s*\.\s*|\bSelf\s*::\s*)|(?<![\w.:]))([A-Za-z_]\w*)\s*(?:::\s*<[^>()]*>\s*)?\(")


def rename_params(body, names, k):
    for p in names:
        def sub(m, p=p):
            before = body[:m.start()].rstrip()[-1:]
            if re.match(r"\s*:(?!:)", body[m.end():]) and before in "{,":
                return m.group(0)                           # a field name in a struct literal
            return f"{p}__{k}"
        body = re.sub(r"(?<![\w.])" + re.escape(p) + r"\b", sub, body)
    return body


def resolve(file, name, prefixed):
    """the callee a call refers to, or None when it is not ours / ambiguous / must stay opaque"""
    cands = file.fns.get(name, [])
    f = None
    if len(cands) == 1 and (prefixed or not cands[0].is_method):
        f = cands[0]
        home = file
    elif not cands and not prefixed:
        hits = [(o, o.fns[name][0]) for o in FILES.values() if o is not file and len(o.fns.get(name, [])) == 1
                and not o.fns[name][0].is_method]
        if len(hits) == 1:
            home, f = hits[0]
    if f is None or re.search(r"\bmeta_cache\s*\.\s*get\s*\(", f.body):
        return None, None                                   # a read through the cache is not a backend read
    return home, f


def expand(file, text, stack=(), max_depth=6):
    """text with the calls of our own functions expanded (see the module docstring)"""
    out, i = [], 0
    while True:
        m = CALL.search(text, i)
        if not m:
            out.append(text[i:])
            break
        name = m.group(2)
        home, f = (None, None)
        if name not in stack and len(stack) < max_depth and not re.search(r"\bfn\s+$", text[:m.start(2)]):
            home, f = resolve(file, name, bool(m.group(1)))
        if f is None:
            out.append(text[i:m.end()])
            i = m.end()
            continue
        close = match_close(text, m.end() - 1)
        args_text = expand(file, text[m.end():close], stack, max_depth)
        _counter[0] += 1
        k = _counter[0]
        names = [p for p, _ in f.params if p]
        body = rename_params(f.body, names, k)
        args = split_top(args_text)
        binds = ""
        if len(args) == len(f.params):
            binds = "".join(f" let {p}__{k} = {a.strip()};" for (p, _), a in zip(f.params, args) if p)
        inner = expand(home, body, stack + (name,), max_depth)
        out.append(text[i:m.end()] + args_text + ")" + L + binds + " " + inner + R)
        i = close + 1
    return "".join(out)


def body_of(file, name):
    return expand(file, file.fn(name).body, (name,))


# ------------------------------------------------------------------------------------------------
# `let` bindings: following a value by the names it is bound to
# ------------------------------------------------------------------------------------------------

NOT_VARS = {"mut", "ref", "_", "box"}


def lets(text):
    """(position, [names bound], initialiser text, position of '=', end) of every `let` / `if let` / `while let`"""
    out = []
    for m in re.finditer(r"\blet\s+", text):
        i, depth, eq = m.end(), 0, None
        while i < len(text):
            ch = text[i]
            if ch in OPEN:
                depth += 1
            elif ch in CLOSE:
                depth -= 1
                if depth < 0:
                    break
            elif ch == ";" and depth == 0:
                break
            elif ch == "=" and depth == 0 and text[i + 1:i + 2] not in ("=", ">") and text[i - 1] not in "=!<>":
                eq = i
                break
            i += 1
        if eq is None:
            continue
        pat = text[m.end():eq]
        # cut a type annotation: the first top-level single ':'
        d = 0
        for j, ch in enumerate(pat):
            if ch in OPEN or ch == "<":
                d += 1
            elif ch in CLOSE or ch == ">":
                d -= 1
            elif ch == ":" and d == 0 and pat[j + 1:j + 2] != ":" and pat[j - 1:j] != ":":
                pat = pat[:j]
                break
        names = [x for x in re.findall(r"(?<![\w:.])[a-z_]\w*\b(?!\s*(?:::|\(|\{))", pat) if x not in NOT_VARS]
        conditional = re.search(r"(?:\bif|\bwhile|&&)\s*$", text[:m.start()]) is not None
        i, depth = eq + 1, 0
        while i < len(text):
            ch = text[i]
            if ch in OPEN:
                if ch == "{" and depth == 0 and conditional:
                    break
                depth += 1
            elif ch in CLOSE:
                depth -= 1
                if depth < 0:
                    break
            elif ch == ";" and depth == 0:
                break
            elif conditional and depth == 0 and text.startswith("&&", i):
                break
            i += 1
        out.append((m.start(), names, text[eq + 1:i], eq, i))
    return out


def mentions(expr, names):
    return any(re.search(r"(?<![\w.])" + re.escape(n) + r"\b", expr) for n in names)


def tainted(text, source_res, seeds=()):
    """names whose value is computed from a call matching one of source_res (or from the seeds), through
    any chain of `let` bindings (flow-insensitive)"""
    ls = lets(text)
    t = set(seeds)
    changed = True
    while changed:
        changed = False
        for _, names, expr, _, _ in ls:
            if set(names) <= t:
                continue
            if any(re.search(s, expr) for s in source_res) or mentions(expr, t):
                t |= set(names)
                changed = True
    return t


def aliases(text, name):
    """names that are the value `name` itself, moved around: `let mut f = Some(f)`, `let g = f.take()..`"""
    ls = lets(text)
    t = {name}
    changed = True
    while changed:
        changed = False
        for _, names, expr, _, _ in ls:
            if len(names) != 1 or names[0] in t:
                continue
            m = re.match(r"\s*(?:Some\s*\(\s*)?(?:&\s*(?:mut\s+)?)?([a-z_]\w*)\b", expr)
            if m and m.group(1) in t:
                t.add(names[0])
                changed = True
    return t


def calls(text, method):
    """[(start, index of '(')] of the method calls `.method(` in text"""
    return [(m.start(), m.end() - 1) for m in re.finditer(r"\.\s*" + method + r"\s*\(", text)]


def first_arg(text, open_paren):
    args = split_top(text[open_paren + 1:match_close(text, open_paren)])
    return args[0].strip() if args else ""


def made_by(text, expr, before, steps=5):
    """names of the functions / methods / fields that produce the value of expr (a call argument):
    those in expr itself and, when expr is a plain local, those of the `let` that bound it last"""
    names = set(re.findall(r"\b([a-z_]\w*)\s*\(", expr)) | set(re.findall(r"\.\s*([a-z_]\w*)\b", expr))
    m = re.fullmatch(r"\s*(?:&\s*)?(?:mut\s+)?\*?\s*([a-z_]\w*)\s*(?:\.\s*(?:clone|as_ref|to_owned|borrow)\s*\(\s*\))?\s*", expr)
    if m and steps > 0:
        prev = [(p, e) for p, ns, e, _, _ in lets(text[:before]) if m.group(1) in ns]
        if prev:
            names |= made_by(text, prev[-1][1], prev[-1][0], steps - 1)
    return names


def enclosing_loop(text, pos, what):
    """(start, end) of the body of the innermost for / while / loop whose block contains pos"""
    depth = 0
    j = pos - 1
    while j >= 0:
        ch = text[j]
        if ch == "}":
            depth += 1
        elif ch == "{":
            if depth == 0:
                if re.search(r"(?:\bloop|\bfor\b[^;{}]*|\bwhile\b[^;{}]*)\s*$", text[:j]):
                    return j + 1, match_close(text, j)
            else:
                depth -= 1
        j -= 1
    die(f"{what} is not inside a loop")


def pos(body, pattern, what, required=True):
    m = re.search(pattern, body)
    if not m:
        if required:
            die(f"marker `{what}` not found")
        return None
    return m.start()


def order_names(pairs, what):
    ps = [p for _, p in pairs]
    if len(set(ps)) != len(ps):
        die(f"ambiguous order in {what}")
    return [n for n, _ in sorted(pairs, key=lambda x: x[1])]


# ------------------------------------------------------------------------------------------------
# commits through update_meta_with
# ------------------------------------------------------------------------------------------------

def closure_of_call(body, what):
    """(closure start, closure end, call start, call end) of the single `update_meta_with(.., <closure>)`
    call of body. The closure is the `async |..| { .. }` argument, or a local bound to one."""
    ms = list(re.finditer(r"\bupdate_meta_with\s*\(", body))
    if len(ms) != 1:
        die(f"expected exactly one call of update_meta_with in {what}, found {len(ms)}")
    i = ms[0].end() - 1
    j = match_close(body, i)
    args = body[i + 1:j]
    m = re.search(r"async\s*(?:move\s*)?\|[^|]*\|\s*\{", args)
    if m:
        k = i + 1 + args.index("{", m.start())
        return k + 1, match_close(body, k), ms[0].start(), j
    parts = split_top(args)
    last = parts[-1].strip() if parts else ""
    if re.fullmatch(r"[a-z_]\w*", last):
        for p, names, expr, eq, _ in reversed(lets(body[:ms[0].start()])):
            cm = re.match(r"\s*async\s*(?:move\s*)?\|[^|]*\|\s*\{", expr)
            if last in names and cm:
                k = eq + 1 + cm.end() - 1
                return k + 1, match_close(body, k), ms[0].start(), j
    die(f"the update_meta_with call of {what} has no async closure argument")


def commit_order(um_order, fn_body, payload_sites, payload_what, what):
    """Order of payload / pointer / reclaim for a function that commits through update_meta_with.
    Positions are taken on a virtual time line: everything textually before the update_meta_with call
    comes first; the closure body runs where update_meta_with calls its closure; pointer and reclaim
    follow in update_meta_with's own order. Returns (order, closure start, closure end)."""
    c0, c1, call_start, call_end = closure_of_call(fn_body, what)
    in_closure = before = after = 0
    for p in payload_sites:
        if c0 <= p < c1:
            in_closure += 1
        elif p < call_start:
            before += 1
        elif p > call_end:
            after += 1
        else:
            die(f"{what}: the payload write `{payload_what}` is an argument of update_meta_with but outside its closure")
    if in_closure + before + after != 1:
        die(f"payload write `{payload_what}` of {what}: expected exactly one site, found closure={in_closure} before={before} after={after}")
    line = []
    if before:
        line.append("payload")
    for ph in um_order:
        if ph == "callF":
            if in_closure:
                line.append("payload")
        else:
            line.append(ph)
    if after:
        line.append("payload")
    return line, c0, c1


def strip_expansions(text):
    """text without the expanded callee bodies"""
    out, depth = [], 0
    for ch in text:
        if ch == L:
            depth += 1
        elif ch == R:
            depth -= 1
        elif depth == 0:
            out.append(ch)
    return "".join(out)


def guard_of(body, what):
    """(position of the registration, names bound, held): the statement of the function itself (not of
    an expanded helper) that receives the in-flight guard; held = bound to names (no bare `_`) that
    are not dropped explicitly"""
    m = re.search(r"\btrack_in_flight\s*\(", body)
    if not m:
        die(f"{what}: no in-flight registration (track_in_flight)")
    p = m.start()
    depth, j, top = 0, p - 1, p
    while j >= 0:                                             # leave the expanded callee bodies
        if body[j] == R:
            depth += 1
        elif body[j] == L:
            if depth == 0:
                top = j
            else:
                depth -= 1
        j -= 1
    bound = [(q, names, eq) for q, names, _, eq, end in lets(body) if eq < top < end]
    if not bound:
        return p, [], False                                   # registered and dropped at once
    q, names, eq = bound[-1]
    held = bool(names) and not re.search(r"(?<!\w)_(?!\w)", body[q + 3:eq])
    held = held and not any(re.search(r"\bdrop\s*\(\s*" + re.escape(n) + r"\s*\)", body) for n in names)
    return p, names, held


def lean_list(xs, prefix="."):
    return "[" + ", ".join(prefix + x for x in xs) + "]"


def lean_bool(b):
    return "true" if b else "false"


SEED_SOURCES = [r"\bnew_generation\s*\(", r"\brand_bytes\s*(?:::\s*<[^>]*>\s*)?\("]


def hashes_seed(text, seeds=(), sources=SEED_SOURCES):
    """some `.update(..)` of a hasher is fed a value computed from the per-commit seed"""
    t = tainted(text, sources, seeds)
    for _, op in calls(text, "update"):
        if mentions(text[op + 1:match_close(text, op)], t):
            return True
    return False


def main():
    if len(sys.argv) != 3:
        die("usage: c07_sidecar_order.py <repo_root> <gen_dir>")
    repo, gen_dir = sys.argv[1], sys.argv[2]
    for key in ("sidecar", "lib", "encryption"):
        p = os.path.join(repo, f"rs/anda_object_store/src/{key}.rs")
        if not os.path.exists(p):
            die(f"source file rs/anda_object_store/src/{key}.rs not found")
        FILES[key] = File(key, cut_tests(strip_rust_comments(open(p, encoding="utf-8").read())))
    side, lib, enc = FILES["sidecar"], FILES["lib"], FILES["encryption"]

    # ---- update_meta_with ------------------------------------------------------------------
    umf = side.fn("update_meta_with")
    um = body_of(side, "update_meta_with")
    fparams = [p for p, ty in umf.params if p and (re.match(r"impl\b.*Fn", ty, re.S) or (
        re.fullmatch(r"[A-Z]\w*", ty) and re.search(r"\b" + ty + r"\s*:\s*[^,{]*Fn(?:Once|Mut)?\s*\(", umf.sig)))]
    if len(fparams) != 1:
        die(f"update_meta_with: expected exactly one closure parameter (`F: AsyncFnOnce(..)`), found {len(fparams)}")
    fnames = aliases(um, fparams[0])
    f_ps = [m.start() for m in re.finditer(r"(?<![\w.])(?:" + "|".join(map(re.escape, sorted(fnames))) + r")\s*\(", um)]
    if not f_ps:
        die("update_meta_with never calls its closure parameter")
    read_p = pos(um, r"\b(?:fetch_meta_bytes|load_meta)\s*\(", "fetch_meta_bytes in update_meta_with")
    ptr_ps = [s for s, op in calls(um, "put_opts") if "meta_path" in made_by(um, first_arg(um, op), s)]
    others = [s for s, op in calls(um, "put_opts") if "meta_path" not in made_by(um, first_arg(um, op), s)]
    if len(ptr_ps) != 1 or others:
        die(f"update_meta_with: expected exactly one put of the metadata document (`.put_opts(<meta_path(..)>, ..)`), found {len(ptr_ps)} and {len(others)} other put(s)")
    ptr_p = ptr_ps[0]
    rec_p = pos(um, r"\bbest_effort_delete\s*\(|\.\s*delete\s*\(", "best_effort_delete / store.delete in update_meta_with")
    if not (all(p < ptr_p for p in f_ps) or all(p > ptr_p for p in f_ps)):
        die("update_meta_with: closure calls on both sides of the metadata put")
    if not read_p < min(f_ps):
        die("update_meta_with: the fresh metadata read no longer precedes the closure")
    um_order = order_names([("callF", f_ps[0]), ("pointer", ptr_p), ("reclaim", rec_p)], "update_meta_with")
    # the reclaimed path must be guarded by the `old != new payload path` comparison
    if not re.search(r"!=\s*(?:&\s*)?self\s*\.\s*payload_path\s*\(|\bpayload_path\s*\([^;{}]*\)\s*!=", um):
        die("update_meta_with: the `<replaced path> != payload_path(<new>)` guard before the reclaim is gone")

    # ---- delete_object ---------------------------------------------------------------------
    do = body_of(side, "delete_object")
    dels = [(s, "meta_path" in made_by(do, first_arg(do, op), s)) for s, op in calls(do, "delete")]
    dptr = [s for s, is_ptr in dels if is_ptr]
    dpay = [s for s, is_ptr in dels if not is_ptr]
    if not dptr:
        die("delete_object: no delete of the commit point (`.delete(<meta_path(..)>)`)")
    if not dpay:
        die("delete_object: no delete of the payload (best_effort_delete / `.delete(<payload path>)`)")
    delete_order = order_names([("pointer", min(dptr)), ("payload", min(dpay))], "delete_object")

    # ---- copy_payload ----------------------------------------------------------------------
    cp = body_of(side, "copy_payload")
    cp_track = pos(cp, r"\btrack_in_flight\s*\(", "track_in_flight in copy_payload")
    cp_copy = pos(cp, r"\.\s*copy_opts\s*\(", "store.copy_opts in copy_payload")
    cp_gen = pos(cp, r"\bnew_generation\s*\(", "new_generation in copy_payload")
    copy_track_first = cp_gen < cp_track < cp_copy
    # which component of the returned tuple is the generation, which the guard
    gen_vars = tainted(cp, [r"\bnew_generation\s*\("]) - tainted(cp, [r"\btrack_in_flight\s*\(", r"\bgeneration_path\s*\("])
    guard_vars = {n for _, ns, e, _, _ in lets(cp) if re.search(r"\btrack_in_flight\s*\(", e) for n in ns}
    rets = [split_top(m.group(1)) for m in re.finditer(r"\bOk\s*\(\s*\(([^()]*)\)\s*\)", cp)]
    rets = [[x.strip() for x in r] for r in rets if len(r) >= 2]
    if not rets or any(len(r) != len(rets[0]) for r in rets):
        die("copy_payload: cannot find the returned tuple `Ok((src, generation, guard))`")
    gi = {i for r in rets for i, x in enumerate(r) if x in gen_vars}
    hi = {i for r in rets for i, x in enumerate(r) if x in guard_vars}
    if len(gi) != 1 or len(hi) != 1:
        die("copy_payload: cannot tell which component of the returned tuple is the generation / the in-flight guard")
    cp_gen_i, cp_guard_i, cp_arity = gi.pop(), hi.pop(), len(rets[0])

    # ---- collect_garbage -------------------------------------------------------------------
    gc = body_of(side, "collect_garbage")
    floor = pos(gc, r"\bSystemTime\s*::\s*now\s*\(|\bunix_ms\s*\(", "the floor timestamp (SystemTime::now) in collect_garbage")
    lists = [(s, first_arg(gc, op)) for s, op in calls(gc, "list")]
    marks = [s for s, a in lists if "meta_prefix" in made_by(gc, a, s) or "meta_prefix" in a]
    sweeps = [s for s, a in lists if "gen_prefix" in made_by(gc, a, s) or "gen_prefix" in a]
    if not marks:
        die("marker `list(meta_prefix) in collect_garbage` not found")
    if not sweeps:
        die("marker `list(gen_prefix) in collect_garbage` not found")
    mark, sweep = min(marks), min(sweeps)
    inflight = pos(gc, r"\bis_in_flight\s*\(", "is_in_flight in collect_garbage")
    l0, l1 = enclosing_loop(gc, inflight, "collect_garbage: the in-flight check")
    loop = gc[l0:l1]
    g_if = l0 + pos(loop, r"\bis_in_flight\s*\(", "is_in_flight")
    rm = re.search(r"\b(?:fetch_meta_bytes|load_meta)\s*\(", loop)
    if not rm:
        die("collect_garbage: no re-read of the commit point from the backend (fetch_meta_bytes / load_meta) in the candidate loop")
    g_re = l0 + rm.start()
    dl = calls(loop, "delete")
    if not dl:
        die("marker `store.delete(..) in the candidate loop of collect_garbage` not found")
    g_del = l0 + dl[0][0]
    gc_candidate = order_names([("inFlight", g_if), ("recheck", g_re), ("delete", g_del)], "collect_garbage candidate loop")
    # is the commit point re-read for every candidate, or once per key (answer remembered in a map
    # that is consulted before the backend read)?
    lookups = [m for m in re.finditer(r"\.\s*(contains_key|get_mut|entry|get_or_insert_with|or_insert_with|get)\s*\(", loop[:dl[0][0]])
               if not re.search(r"\bstore\s*$", loop[:m.start()])]
    nested = brace_depth(loop[:rm.start()])
    if nested == 0 and not lookups:
        gc_recheck_per_candidate = True
    elif lookups:
        gc_recheck_per_candidate = False
    else:
        die("collect_garbage: cannot tell whether the commit point is re-read per candidate or per key (the re-read is conditional but no map lookup found)")
    gc_mark_first = floor < mark < sweep < min(g_if, g_re, g_del)
    # generations minted at or after the floor are skipped: `<ts> >= <floor>` guards a `continue`
    floor_vars = {n for _, ns, e, _, _ in lets(gc) if re.search(r"\bSystemTime\s*::\s*now\s*\(|\bunix_ms\s*\(", e) for n in ns}
    if not floor_vars:
        die("collect_garbage: the floor timestamp is not bound to a local")
    fv = "(?:" + "|".join(map(re.escape, sorted(floor_vars))) + ")"
    skip = [m for m in re.finditer(r"\b\w+\s*>=\s*" + fv + r"\b|\b" + fv + r"\s*<=\s*\w+", gc) if m.start() > sweep]
    keep = [m for m in re.finditer(r"\b\w+\s*<\s*" + fv + r"\b|\b" + fv + r"\s*>\s*\w+", gc) if m.start() > sweep]
    gc_floor_skip = False
    for m in skip:
        b = gc.find("{", m.end())
        if b >= 0 and re.search(r"\bcontinue\b|\breturn\b", gc[b:match_close(gc, b)]) and not re.search(r"[;}]", gc[m.end():b]):
            gc_floor_skip = True
    for m in keep:
        b = gc.find("{", m.end())
        if b >= 0 and not re.search(r"[;}]", gc[m.end():b]):
            blk = gc[b:match_close(gc, b)]
            rest = gc[match_close(gc, b) + 1:]
            if re.search(r"\.\s*push\s*\(", blk) or re.match(r"\s*else\s*\{\s*continue\b", rest):
                gc_floor_skip = True

    # ---- wrappers --------------------------------------------------------------------------
    wrappers = {}
    for name, file in (("metaStore", lib), ("encrypted", enc)):
        # put_opts
        put = body_of(file, "put_opts")
        sites = [s for s, op in calls(put, "put_opts") if {"generation_path", "payload_path"} & made_by(put, first_arg(put, op), s)]
        stray = [s for s, op in calls(put, "put_opts") if not {"generation_path", "payload_path"} & made_by(put, first_arg(put, op), s)]
        if stray:
            die(f"{name}::put_opts: a backend put whose target is not made by generation_path(..)")
        put_order, c0, c1 = commit_order(um_order, put, sites, "store.put_opts(<generation_path(..)>, ..)", f"{name}::put_opts")
        um_call = pos(put, r"\bupdate_meta_with\s*\(", f"update_meta_with in {name}::put_opts")
        gen_p = pos(put, r"\bnew_generation\s*\(", f"new_generation in {name}::put_opts")
        t_p, _, guard_held = guard_of(put, f"{name}::put_opts")
        track_first = gen_p < t_p < um_call
        # no successful exit of the closure before the payload write
        pay_in_closure = [s for s in sites if c0 <= s < c1]
        early_ok = pay_in_closure and re.search(r"\breturn\s+Ok\s*\(", strip_expansions(put[c0:pay_in_closure[0]])) is not None
        put_fresh = bool(pay_in_closure) and not early_ok
        # multipart
        comp = body_of(file, "complete")
        csites = [s for s, _ in calls(comp, "complete")]
        complete_order, _, _ = commit_order(um_order, comp, csites, "inner.complete()", f"{name} uploader complete")
        mp = body_of(file, "put_multipart_opts")
        mp_open = calls(mp, "put_multipart_opts")
        if not mp_open:
            die(f"marker `store.put_multipart_opts in {name}::put_multipart_opts` not found")
        if not {"generation_path", "payload_path"} & made_by(mp, first_arg(mp, mp_open[0][1]), mp_open[0][0]):
            die(f"{name}::put_multipart_opts: the upload target is not made by generation_path(..)")
        mt_p, mt_names, mt_held = guard_of(mp, f"{name}::put_multipart_opts")
        # the guard must move into the uploader (a field initialiser of a struct literal)
        stored = any(re.search(r"\b\w+\s*:\s*" + re.escape(g) + r"\s*[,}]|[{,]\s*" + re.escape(g) + r"\s*[,}]", mp) for g in mt_names)
        mp_gen = pos(mp, r"\bnew_generation\s*\(", f"new_generation in {name}::put_multipart_opts")
        mp_track_first = mp_gen < mt_p < mp_open[0][0] and mt_held and stored
        # copy
        cpy = body_of(file, "copy_opts")
        cps = [m.start() for m in re.finditer(r"\bcopy_payload\s*\(", cpy)]
        copy_order, _, _ = commit_order(um_order, cpy, cps, "copy_payload(..)", f"{name}::copy_opts")
        pm = re.search(r"\blet\s*\(([^()=]*)\)\s*=[^;]*?\bcopy_payload\s*\(", cpy, re.S)
        if not pm:
            die(f"{name}::copy_opts: `let (src, generation, <guard>) = self.inner.copy_payload(..)` not found")
        comps = [c.strip() for c in split_top(pm.group(1))]
        if len(comps) != cp_arity:
            die(f"{name}::copy_opts: the tuple pattern bound to copy_payload(..) has {len(comps)} components, copy_payload returns {cp_arity}")
        copy_guard_held = re.fullmatch(r"(?:mut\s+)?[a-z_]\w*", comps[cp_guard_i]) is not None and comps[cp_guard_i] != "_" \
            and not re.search(r"\bdrop\s*\(\s*" + re.escape(comps[cp_guard_i]) + r"\s*\)", cpy)
        copy_gen_var = re.sub(r"^mut\s+", "", comps[cp_gen_i])
        copy_seeded_here = re.fullmatch(r"[a-z_]\w*", copy_gen_var) is not None and copy_gen_var != "_" \
            and hashes_seed(cpy, seeds=[copy_gen_var], sources=[])
        # rename
        renf = file.fn("rename_opts")
        ren = body_of(file, "rename_opts")
        r_copy = pos(ren, r"\bself\s*\.\s*copy_opts\s*\(", f"self.copy_opts in {name}::rename_opts")
        r_del = pos(ren, r"\bdelete_object\s*\(", f"delete_object in {name}::rename_opts")
        rename_order = order_names([("copy", r_copy), ("deleteSource", r_del)], f"{name}::rename_opts")
        pnames = [p for p, _ in renf.params if p]
        if len(pnames) < 2:
            die(f"{name}::rename_opts: cannot read the parameter names")
        a, b = re.escape(pnames[0]), re.escape(pnames[1])
        sr = re.search(r"\bif\s+(?:" + a + r"\s*==\s*" + b + r"|" + b + r"\s*==\s*" + a + r")\b", ren)
        self_rename = sr is not None and sr.start() < r_copy and \
            re.search(r"\breturn\b", ren[sr.end():match_close(ren, ren.index("{", sr.end()))]) is not None
        # get_opts: are the read preconditions evaluated inside the stale-pointer retry loop, on the
        # document resolved in that iteration (get_meta / check_get_preconditions per iteration,
        # refresh_meta's answer not carried over)?
        getf = body_of(file, "get_opts")
        rf = pos(getf, r"\brefresh_meta\s*\(", f"refresh_meta in {name}::get_opts (stale-pointer retry)")
        g0, g1 = enclosing_loop(getf, rf, f"{name}::get_opts: refresh_meta (the stale-pointer retry)")
        gloop, gbefore = getf[g0:g1], getf[:g0]
        chk = re.search(r"\bcheck_get_preconditions\s*\(", gloop)
        chk_before = re.search(r"\bcheck_get_preconditions\s*\(", gbefore)
        if not chk and not chk_before:
            die(f"{name}::get_opts: check_get_preconditions is not called")
        chk_depth = brace_depth(gloop[:chk.start()]) if chk else -1
        meta_in_loop = re.search(r"\bget_meta\s*\(", gloop) is not None
        refresh_bound = re.search(r"(?<![=!<>])=(?![=>])\s*[\w\s.&*]*\brefresh_meta\s*\(", gloop) is not None
        get_recheck = bool(chk) and chk_depth == 0 and meta_in_loop and not chk_before and not refresh_bound \
            and re.search(r"\bget_meta\s*\(", gloop).start() < chk.start()
        # e_tag recipes: the hasher is fed a value computed from the fresh generation / a fresh random nonce
        put_seeded = hashes_seed(put)
        mp_seeded = hashes_seed(mp)
        wrappers[name] = dict(put=put_order, complete=complete_order, copy=copy_order, rename=rename_order,
                              track=track_first and mp_track_first and copy_track_first,
                              held=guard_held and copy_guard_held, put_seeded=put_seeded, mp_seeded=mp_seeded,
                              copy_seeded=copy_seeded_here, self_rename=self_rename, get_recheck=get_recheck,
                              put_fresh=put_fresh)

    copy_seeded = all(w["copy_seeded"] for w in wrappers.values())

    def per_wrapper(field, f):
        return "\n".join(f"  | .{n} => {f(wrappers[n][field])}" for n in ("metaStore", "encrypted"))

    std = ["payload", "pointer", "reclaim"]
    text = f"""/-
GENERATED by bin/translate/c07_sidecar_order.py from rs/anda_object_store/src/{{sidecar,lib,encryption}}.rs.
Do not edit: regenerated on every check.
-/
namespace AndaVerif.Gen.SidecarOrder

inductive Wrapper where
  | metaStore | encrypted
  deriving DecidableEq, Repr

inductive CommitPhase where
  | payload | pointer | reclaim
  deriving DecidableEq, Repr

inductive DeletePhase where
  | pointer | payload
  deriving DecidableEq, Repr

inductive RenamePhase where
  | copy | deleteSource
  deriving DecidableEq, Repr

inductive GcCheck where
  | inFlight | recheck | delete
  deriving DecidableEq, Repr

/-- `put_opts`: payload write / metadata put / best-effort reclaim, in execution order -/
def putOrder : Wrapper → List CommitPhase
{per_wrapper("put", lean_list)}

/-- multipart `complete` -/
def completeOrder : Wrapper → List CommitPhase
{per_wrapper("complete", lean_list)}

/-- `copy_opts` (`copy_payload`, then the pointer commit) -/
def copyOrder : Wrapper → List CommitPhase
{per_wrapper("copy", lean_list)}

/-- `delete_object` -/
def deleteOrder : List DeletePhase := {lean_list(delete_order)}

/-- `rename_opts` for `from != to` -/
def renameOrder : Wrapper → List RenamePhase
{per_wrapper("rename", lean_list)}

/-- `rename_opts` handles `from == to` before anything else -/
def selfRenameGuard : Wrapper → Bool
{per_wrapper("self_rename", lean_bool)}

/-- `collect_garbage`: floor timestamp, then the mark listing, then the sweep listing, then deletions -/
def gcMarkFirst : Bool := {lean_bool(gc_mark_first)}

/-- generations minted at or after the start of the collection are skipped (`ts >= floor_ms`) -/
def gcFloorSkip : Bool := {lean_bool(gc_floor_skip)}

/-- per candidate: in-flight check, re-read of the commit point, delete -/
def gcCandidateOrder : List GcCheck := {lean_list(gc_candidate)}

/-- `get_opts`: every iteration of the stale-pointer retry loop resolves the document (`get_meta`) and
evaluates `check_get_preconditions` on it — a retried read re-checks the caller's conditions
against the re-resolved commit -/
def getRecheckInRetry : Wrapper → Bool
{per_wrapper("get_recheck", lean_bool)}

/-- the commit point is re-read from the backend for every candidate (`true`), or once per key with the
answer reused for the key's later candidates (`false`) -/
def gcRecheckPerCandidate : Bool := {lean_bool(gc_recheck_per_candidate)}

/-- the generation is minted and registered as in-flight before the payload reaches the backend
(put, multipart, copy) -/
def trackBeforePayload : Wrapper → Bool
{per_wrapper("track", lean_bool)}

/-- the registration is bound to a named guard that lives until the call returns -/
def guardHeld : Wrapper → Bool
{per_wrapper("held", lean_bool)}

/-- the logical e_tag of a put hashes the per-commit seed (generation / base nonce) -/
def putTagSeeded : Wrapper → Bool
{per_wrapper("put_seeded", lean_bool)}

/-- the same for a multipart upload -/
def completeTagSeeded : Wrapper → Bool
{per_wrapper("mp_seeded", lean_bool)}

/-- the e_tag of a copy hashes the fresh generation of the target (both `copy_opts`, through
`derive_copy_e_tag`) -/
def copyTagSeeded : Bool := {lean_bool(copy_seeded)}

/-- `put_opts`: the commit closure has no successful exit before the payload write — every put that
succeeds writes a fresh generation and commits it (no "unchanged, keep the current commit" path) -/
def putFreshCommit : Wrapper → Bool
{per_wrapper("put_fresh", lean_bool)}

end AndaVerif.Gen.SidecarOrder
"""
    facts = f"""import AndaVerif.Gen.SidecarOrder
/-
GENERATED by bin/translate/c07_sidecar_order.py: the values of `Gen/SidecarOrder.lean` the proofs of
C07 / C08 were written against, re-checked by the kernel on every run. (Kept apart from the data so
that the model and its driver still build, and follow the source, when an order changes.)
-/
namespace AndaVerif.Gen.SidecarOrder

theorem gen_put_order : ∀ w, putOrder w = {lean_list(std)} := by intro w; cases w <;> decide
theorem gen_complete_order : ∀ w, completeOrder w = {lean_list(std)} := by intro w; cases w <;> decide
theorem gen_copy_order : ∀ w, copyOrder w = {lean_list(std)} := by intro w; cases w <;> decide
theorem gen_delete_order : deleteOrder = [.pointer, .payload] := by decide
theorem gen_rename_order : ∀ w, renameOrder w = [.copy, .deleteSource] := by intro w; cases w <;> decide
theorem gen_self_rename_guard : ∀ w, selfRenameGuard w = true := by intro w; cases w <;> decide
theorem gen_gc_mark_first : gcMarkFirst = true := by decide
theorem gen_gc_floor_skip : gcFloorSkip = true := by decide
theorem gen_gc_candidate_order : gcCandidateOrder = [.inFlight, .recheck, .delete] := by decide
theorem gen_get_recheck_in_retry : ∀ w, getRecheckInRetry w = true := by intro w; cases w <;> decide
theorem gen_gc_recheck_per_candidate : gcRecheckPerCandidate = true := by decide
theorem gen_track_before_payload : ∀ w, trackBeforePayload w = true := by intro w; cases w <;> decide
theorem gen_guard_held : ∀ w, guardHeld w = true := by intro w; cases w <;> decide
theorem gen_put_tag_seeded : ∀ w, putTagSeeded w = true := by intro w; cases w <;> decide
theorem gen_complete_tag_seeded : ∀ w, completeTagSeeded w = true := by intro w; cases w <;> decide
theorem gen_copy_tag_seeded : copyTagSeeded = true := by decide
theorem gen_put_fresh_commit : ∀ w, putFreshCommit w = true := by intro w; cases w <;> decide

end AndaVerif.Gen.SidecarOrder
"""
    write_gen(gen_dir, "SidecarOrder.lean", text)
    write_gen(gen_dir, "SidecarOrderFacts.lean", facts)


if __name__ == "__main__":
    main()
