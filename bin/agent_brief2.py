#!/usr/bin/env python3
"""Brief for a builder that owns TWO properties sharing one model."""
import json, sys, subprocess
a, b = sys.argv[1], sys.argv[2]
for pid in (a, b):
    print(f"===================== BRIEF FOR {pid} =====================")
    print(subprocess.run(["python3", "/verif/bin/agent_brief.py", pid], capture_output=True, text=True).stdout)
print(f"""===================== YOU OWN BOTH {a} AND {b} =====================
They share one Lean model (see DESIGN.md): write the shared model/proof files once, but keep separate Props/{a}.lean, Props/{b}.lean, Drv/{a}.lean, Drv/{b}.lean (may be thin wrappers over one shared driver module), harness crates harness/{a.lower()} and harness/{b.lower()} (the second may depend on the first as a library via a path dependency, or both may share a module through `#[path]`), checks.d/{a}.json, checks.d/{b}.json, notes/{a}.md, notes/{b}.md. Get {a} green first (within ~90 minutes), then {b}, then deepen both.""")
