#!/usr/bin/env python3
"""Creates a scratch worktree for a seeding agent and prints its brief (property text only; nothing from /verif)."""
import json, sys, subprocess, os
pid, tag = sys.argv[1], sys.argv[2]
focus = sys.argv[3] if len(sys.argv) > 3 else ""
wt = f"/tmp/seed/{pid}-{tag}"
os.makedirs("/tmp/seed", exist_ok=True)
if not os.path.exists(wt):
    subprocess.run(["git", "-C", "/repo", "worktree", "add", "--detach", wt, "HEAD"], check=True, capture_output=True)
for l in open('/verif/properties.jsonl'):
    p = json.loads(l)
    if p['id'] == pid:
        break
text = {k: p[k] for k in ("id", "title", "statement", "quantifier", "why_tests_cant", "anchors")}
print(f"""You are a software engineer asked to SEED A REALISTIC DEFECT into a Rust project, for a study of verification tools. Work ONLY inside your own scratch git worktree of the project: {wt} (a detached checkout of the project's current HEAD). Do not read or write anything under /verif or /repo; do not look at other directories under /tmp/seed. There is no network; build with `--offline`; use `export CARGO_TARGET_DIR={wt}/target` (the default) and build/test only the crates you touch and their dependents (`cargo test -p <crate> --offline`), not the whole workspace, to save time and disk. Disk is tight: ALWAYS also export CARGO_PROFILE_DEV_DEBUG=0 CARGO_PROFILE_TEST_DEBUG=0 CARGO_INCREMENTAL=0 before any cargo command, and delete your target/ directory as soon as you are done.

The project should satisfy this semantic property (given text; study the anchored code):
{json.dumps(text, indent=1)}

YOUR TASK: write a change to the project's source (not to its tests) that BREAKS this property while the project STILL COMPILES and the EXISTING TEST SUITE STILL PASSES unedited, together with a DEMONSTRATION (a new test file or small program) that FAILS with your change and PASSES without it. The change must look like something a developer could plausibly commit (an optimisation, a refactoring, a reordering, a 'simplification', an off-by-one, a forgotten case, a check moved, a cache added) - not sabotage with magic constants - and it must need something SPECIFIC to manifest: a particular interleaving, a crash or fault at a particular point, a multi-step sequence of operations, an unusual input, or two cooperating sites that each look fine alone. Changes that ordinary use or the existing tests would expose at once are useless. {focus}

DELIVER (all under {wt}/SEED/):
  patch.diff   - `git diff` of your SOURCE change only (must apply with `git apply` to a clean checkout of HEAD; do not include the demonstration or SEED/ in it)
  demo/        - the demonstration (e.g. a Rust integration test file plus a README saying where to copy it and the exact command to run it; or a small example program)
  meta.json    - {{"property": "{pid}", "summary": "...what the change does...", "needs_to_manifest": "...the specific input/sequence/interleaving/crash point...", "files_changed": [...], "demo_command": "...", "verified": {{"existing_tests_with_patch": "command + result", "demo_with_patch": "fails: ...", "demo_without_patch": "passes"}}}}
VERIFY YOURSELF before finishing: (1) with the patch applied, `cargo test -p <each touched crate and its direct dependents in the workspace> --offline` passes; (2) the demo fails with the patch; (3) `git stash`/reverse-apply the patch: the demo passes. When done, leave the worktree with the patch REVERTED (clean source tree apart from SEED/ and the demo files if they must live inside a crate - prefer keeping them only under SEED/demo and copying them in when running), and delete {wt}/target to free disk. Final message: a 5-line summary (what you changed, what it needs to manifest, demo command, test results).""")
