#!/usr/bin/env python3
"""Creates a scratch worktree for a refactoring agent and prints its brief (property text only; nothing from /verif)."""
import json, sys, subprocess, os
pid = sys.argv[1]
wt = f"/tmp/seed/{pid}-refactor"
os.makedirs("/tmp/seed", exist_ok=True)
if not os.path.exists(wt):
    subprocess.run(["git", "-C", "/repo", "worktree", "add", "--detach", wt, "HEAD"], check=True, capture_output=True)
for l in open('/verif/properties.jsonl'):
    p = json.loads(l)
    if p['id'] == pid:
        break
text = {k: p[k] for k in ("id", "title", "statement", "anchors")}
print(f"""You are a software engineer asked to write BEHAVIOUR-PRESERVING REFACTORINGS of a Rust project, for a study of verification tools (the tools must NOT raise an alarm on them). Work ONLY inside your own scratch git worktree of the project: {wt} (a detached checkout of the project's current HEAD). Do not read or write anything under /verif or /repo; do not look at other directories under /tmp/seed. There is no network; build with `--offline`; before any cargo command `export CARGO_TARGET_DIR={wt}/target CARGO_PROFILE_DEV_DEBUG=0 CARGO_PROFILE_TEST_DEBUG=0 CARGO_INCREMENTAL=0`; build/test only the crates you touch and their direct dependents (`cargo test -p <crate> --offline`); delete {wt}/target when done.

The code you refactor is the code that makes this semantic property hold (study the anchored files and mechanisms):
{json.dumps(text, indent=1)}

YOUR TASK: produce TWO patches that a maintainer could commit as pure clean-ups of the anchored code, each of which preserves behaviour EXACTLY - same results, same errors, same order and number of storage/backend writes, same lock acquisition order, same observable timing-independent behaviour - so the property still holds:
  r1 (light): rename local variables / private helper functions / closures, reword or add comments and log messages, reformat, reorder INDEPENDENT statements or independent match arms or independent private items, change `if let`/`match` spelling, replace a temporary by an inline expression or vice versa. Touch the functions named in the anchors' mechanisms (several of them), not unrelated code. At least ~40 changed lines.
  r2 (moderate): structural but equivalent rewrites of the same functions: extract a block into a private helper function or closure (or inline one), replace a `for` loop by an iterator chain or vice versa, invert an `if`/`else`, split a long function, hoist a constant, change a `match` into `if let` chains, replace early returns by a result variable - WITHOUT changing evaluation order of anything with side effects (backend calls, lock acquisitions, index mutations, pushes that define output order). At least ~60 changed lines over at least 3 functions from the anchors.
Do NOT change public API signatures, error variants, constants, table contents, or anything observable. Do NOT "fix" or "improve" behaviour. If you are not sure a rewrite is equivalent, do not make it.

DELIVER under {wt}/REFACTOR/: r1.diff and r2.diff (each a `git diff` against clean HEAD, each applying on its own to a clean checkout with `git apply`), and meta.json {{"property": "{pid}", "r1": {{"summary": "...", "functions": [...]}}, "r2": {{"summary": "...", "functions": [...]}}, "verified": {{"r1_tests": "command + result", "r2_tests": "command + result"}}}}. VERIFY each patch separately: apply to clean HEAD, `cargo test -p <touched crates and their direct dependents> --offline` passes, `cargo build` has no new warnings. Leave the worktree clean (patches reverted) apart from REFACTOR/, and delete target/. Final message: 4 lines (what r1 and r2 change, test results).""")
