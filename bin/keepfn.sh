keep () 
{ 
    sid=$1;
    prop=$2;
    log=$3;
    python3 - $sid $prop $log <<'EOF'
import json,glob,os,sys,subprocess,re
sid,prop,logf=sys.argv[1],sys.argv[2],sys.argv[3]
log=open(logf).read()
seg=log.split(f"===== {sid} ({prop}) mutcheck")[1].split("=====")[0]
m=re.search(r"replay: (\S+)",seg)
r=json.load(open(m.group(1))) if m and os.path.exists(m.group(1)) else {}
if "OK property" in seg and "VIOLATION" not in seg:
    check=f"bin/mutcheck patch.diff {prop} --tier quick: OK - MISSED by this version of the check (see DESIGN §13 {prop} for the extension)"
elif r.get('kind')=='failing-input':
    check=f"bin/mutcheck patch.diff {prop} --tier quick: VIOLATION with failing input (oracle key `{r.get('key')}`: {str(r.get('what'))[:220]}; ops {str(r.get('ops'))[:240]})"
else:
    check=f"bin/mutcheck patch.diff {prop} --tier quick: VIOLATION … no-failing-input-found"
if r.get('broken'): check+="; broken: "+"; ".join(b['name'][:110] for b in r['broken'])
conf = "CONFIRMED" in log.split(f"===== {sid} seedverify")[1].split("=====")[0]
v={"confirmed":(f"bin/seedverify /tmp/seed/{sid}: patch applies to /repo HEAD; demo passes on the clean tree and fails with the patch; the touched crate's existing tests pass with the patch" if conf else "NOT CONFIRMED by bin/seedverify"),"check":check}
if conf:
    subprocess.run(["/verif/bin/seedkeep",f"/tmp/seed/{sid}",sid,prop,json.dumps(v)])
else: print("NOT CONFIRMED", sid)
EOF

    git -C /repo worktree remove --force /tmp/seed/$sid 2> /dev/null
}
