#!/bin/bash
# usage: run_seeds.sh "<sid> <prop> <crate> <demo-file> [features]" ...
for spec in "$@"; do
  set -- $spec; sid=$1; prop=$2; crate=$3; demo=$4; feat=${5:-}
  echo "===== $sid ($prop) mutcheck"
  rm -f /tmp/mut/verif/replays/$prop-*.json
  /verif/bin/mutcheck /tmp/seed/$sid/SEED/patch.diff $prop --tier quick 2>&1 | grep -E "^(OK|VIOLATION|KNOWN|MACHINERY)|mutcheck:" | cut -c1-300
  f=$(ls -t /tmp/mut/verif/replays/$prop-*.json 2>/dev/null | head -1)
  [ -n "$f" ] && python3 - "$f" <<'PY'
import json,sys
r=json.load(open(sys.argv[1])); print("replay:", sys.argv[1], r.get('kind')); print(json.dumps({k:r.get(k) for k in ['key','what','ops','expected','observed']})[:900]); print("broken:", [ (b['kind'], b['name'][:120]) for b in r.get('broken',[])])
PY
  echo "===== $sid seedverify"
  SEEDVERIFY_FEATURES=$feat /verif/bin/seedverify /tmp/seed/$sid $crate /tmp/seed/$sid/SEED/demo/$demo 2>&1 | grep -E "seedverify|panicked" | head -6
done
