#!/usr/bin/env python3
"""Prints the standard brief for building one property's check (used to instruct builders)."""
import json, sys
pid = sys.argv[1]
extra = sys.argv[2] if len(sys.argv) > 2 else ""
for l in open('/verif/properties.jsonl'):
    p = json.loads(l)
    if p['id'] == pid:
        break
print(f"""You are building the verification check for ONE property ({pid}) of the Rust project ldclabs/anda-db (source in /repo, read-only for you) inside the verification framework in /verif. The technique is fixed: machine-checked proof in Lean 4 (theorems about an executable Lean model) + a checked tie between the model and the real code (source-to-Lean translators and/or a differential correspondence harness in Rust that runs the real crates and the Lean model on the same inputs). Bounded checking, fuzzing etc. may only support the tie or search for failing inputs; they never stand in for a theorem.

READ FIRST (in this order): /verif/CONVENTIONS.md (file layout, rules, what 'done' means - follow it exactly); /verif/DESIGN.md sections 0-7 skim, then the section '### {pid}' in section 8 (the planned model, theorem names, tie, oracle, partial parts, edits to catch) and section 9 (findings) if it mentions {pid}; /verif/bin/check (how your pieces are run); /verif/harness/common/src/lib.rs (harness helper API); /verif/lean/AndaVerif/Drv/Util.lean. Then read the anchored source files of the property in /repo.

THE PROPERTY (given and fixed; do not restate it weaker):
{json.dumps(p, indent=1)}

YOUR DELIVERABLES (all files owned by {pid}; see CONVENTIONS.md table): lean/AndaVerif/Model/*.lean (import-free executable model mirroring the code that exists - including its error branches and quirks, not a tidy model of what it should do), lean/AndaVerif/Proofs/*.lean, lean/AndaVerif/Props/{pid}.lean (property theorems, universally quantified, with non-vacuity examples), lean/AndaVerif/Drv/{pid}.lean (line-protocol driver, exe target drv_{pid.lower()} already declared), optional bin/translate/*.py + generated lean/AndaVerif/Gen/*.lean, harness/{pid.lower()}/ (crate vh-{pid.lower()}: generator + real code runner + canonicaliser + independent oracle + shrinking), corpus/{pid}/*.ops, checks.d/{pid}.json, notes/{pid}.md.

HARD RULES: never edit /repo (it is shared; other builders compile against it right now). Never edit shared files (bin/check, harness/common, harness/Cargo.toml, lean/lakefile.toml, Drv/Util.lean, MANIFEST.json, DESIGN.md, CONVENTIONS.md) - if you need a change there, work around it and write the request into notes/{pid}.md. Do not run git commit/add/checkout/stash in /verif or /repo (commits are made centrally). No network exists. No sorry/admit/axiom/native_decide/bv_decide/implemented_by/unsafe/maxHeartbeats 0 anywhere in Lean. Do not 'import Mathlib' wholesale; Model/ and Drv/ files import nothing outside AndaVerif.Model/Gen/Drv. Nothing under /tmp may be needed by the check; scratch files go under /verif/work/{pid}-scratch/ and are removed at the end. Keep harness/{pid.lower()}/Cargo.toml valid at all times (a broken manifest breaks everybody's cargo build). If `cargo build` says it is blocked on a file lock, just wait.

ORDER OF WORK (important - time-boxed): (1) within the first ~60-90 minutes get a first version end to end: a modest but faithful model, >= 2 real universally-quantified theorems proved, the driver, the harness with generator + correspondence + independent oracle, checks.d/{pid}.json, and `cd /verif && ./bin/check {pid} --tier quick` exiting 0 with 'OK' on the unchanged tree in <= ~3 minutes wall (after a warm build). (2) Then grow toward the DESIGN section: more of the code inside the model, the remaining theorems at full strength, translators for the order/table parts, the thorough tier, corpus cases. Prefer a smaller theorem that is fully proved and tied to the code over a big one left unfinished; where only part can be proved keep the full statement as a `def ..._full : Prop` and prove `..._partial`, and say what is missing in notes. (3) Write notes/{pid}.md as you go (so nothing is lost if you stop): theorem list, modelled vs assumed, partial parts, the 2-4 concrete edits to /repo that the check should catch (file/function/what to change) and one harmless rewrite that must not alarm, suspected defects with concrete inputs.

IF YOUR ORACLE FIRES ON THE UNCHANGED TREE: decide which it is by replaying on the real code. If the real code truly violates the property statement: do NOT loosen the oracle; keep the failing input in corpus/{pid}/, report it via Report::oracle_failure with a stable `key`, describe it precisely in notes/{pid}.md (input, expected, observed, root cause in the source, suggested minimal fix) and tell me in your final message - it will be fixed in /repo or recorded as a known finding centrally (then bin/check prints KNOWN-FINDING instead of VIOLATION for exactly that key). If your oracle/model was wrong: fix the oracle/model.

{extra}

FINAL MESSAGE: a short report - what is proved (theorem names, one line each), what the harness compares and how many cases the quick tier runs, quick-tier wall time, what is partial/assumed, suspected defects (with inputs), requests for shared-file changes or hooks, and the edits-to-catch list. Work autonomously until done; do not ask questions.""")
