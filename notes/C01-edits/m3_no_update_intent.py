def edit(s):
    a="""        self.record_mutation_intent(id, Some(&old_doc), Some(&doc))
            .await?;
"""
    assert a in s
    return s.replace(a,"")
