def edit(s):
    # harmless: rename a local, add comments, reorder two independent statements
    a="""        let has_pending_indexes = self.has_pending_index_flush();"""
    assert a in s
    s=s.replace(a,"""        // (comment added by a harmless rewrite)
        let has_pending_indexes = { let pending = self.has_pending_index_flush(); pending };""")
    b="""        self.doc_ids.write().add(id);
        self.doc_ids_index.write().insert(id);

        self.update_metadata(|meta| {
            meta.stats.last_inserted = now_ms;"""
    assert b in s
    return s.replace(b,"""        self.doc_ids.write().add(id);
        self.doc_ids_index.write().insert(id);

        let inserted_at = now_ms;
        self.update_metadata(|meta| {
            meta.stats.last_inserted = inserted_at;""")
