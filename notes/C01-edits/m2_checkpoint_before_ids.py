def edit(s):
    a="""            self.store_ids().await?;
            // check_point is the last persisted document ID
            self.storage.store_metadata(check_point, now_ms).await?;"""
    assert a in s
    return s.replace(a,"""            // check_point is the last persisted document ID
            self.storage.store_metadata(check_point, now_ms).await?;
            self.store_ids().await?;""")
