def edit(s):
    a="""        let scan_max = self
            .max_document_id
            .load(Ordering::Acquire)
            .max(self.durable_alloc_watermark.load(Ordering::Acquire));"""
    assert a in s
    return s.replace(a,"        let scan_max = self.max_document_id.load(Ordering::Acquire);")
