def edit(s):
    # store_metadata_unclaimed advances last_saved_version (the flush then skips ids/checkpoint)
    a="""        *self.metadata_version.write() = version;
        Ok(())
    }

    /// Stores document IDs bitmap to storage."""
    assert a in s
    return s.replace(a,"""        *self.metadata_version.write() = version;
        self.last_saved_version.fetch_max(metadata.stats.version, Ordering::Release);
        Ok(())
    }

    /// Stores document IDs bitmap to storage.""")
