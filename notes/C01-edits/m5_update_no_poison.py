def edit(s):
    a="""            // reopen reconcile the divergence; this handle must not continue.
            self.poison("Collection::update");"""
    assert a in s
    return s.replace(a,"            // reopen reconcile the divergence; this handle must not continue.")
