def edit(s):
    # flush_inner: persist the ids bitmap before the collection metadata
    a="        let stored_check_point = self.store_metadata(now_ms).await?;\n"
    assert a in s
    s=s.replace(a,"        if self.last_saved_version.load(Ordering::Acquire) < self.metadata.read().stats.version { self.store_ids().await?; }\n"+a)
    b="            self.store_ids().await?;\n            // check_point is the last persisted document ID"
    assert b in s
    return s.replace(b,"            // check_point is the last persisted document ID")
