def edit(s):
    a="""        let stored_check_point = self.store_metadata(now_ms).await?;
"""
    b="""        if has_pending_mutations {
            self.clear_mutation_intents().await?;
        }

        Ok(stored_check_point"""
    assert a in s and b in s
    s=s.replace(b,"        Ok(stored_check_point")
    return s.replace(a,"        if has_pending_mutations {\n            self.clear_mutation_intents().await?;\n        }\n"+a)
