def edit(s):
    a="""        self.ensure_allocation_watermark(id).await?;

        let now_ms = unix_ms();"""
    assert a in s
    s=s.replace(a,"        let now_ms = unix_ms();")
    b="""        self.doc_ids.write().add(id);
        self.doc_ids_index.write().insert(id);

        self.update_metadata(|meta| {
            meta.stats.last_inserted = now_ms;"""
    assert b in s
    return s.replace(b,"        self.ensure_allocation_watermark(id).await?;\n"+b)
